//! Adapter around the real libmctp (the /repo working tree): every call the
//! checks make into the library goes through here, under the panic trap.
use crate::refmodel::EK;
use crate::trap::trap;
use crate::types::*;
use libmctp::base_packet::MessageType;
use libmctp::control_packet::*;
use libmctp::errors::{ControlMessageError, DecodeError};
use libmctp::mctp_traits::SMBusMCTPRequestResponse;
use libmctp::smbus::MCTPSMBusContext;
use libmctp::smbus_proto::SMBusRoutingInformationUpdateEntry;
use libmctp::vendor_packets::VendorIDFormat;

/// Owns what a context borrows.
pub struct Owned {
    pub cfg: Cfg,
    vids: Vec<VendorIDFormat>,
}

impl Owned {
    pub fn new(cfg: &Cfg) -> Self {
        Owned {
            cfg: cfg.clone(),
            vids: cfg
                .vendors
                .iter()
                .map(|&(format, data, numeric_value)| VendorIDFormat { format, data, numeric_value })
                .collect(),
        }
    }
    pub fn ctx(&self) -> MCTPSMBusContext<'_> {
        MCTPSMBusContext::new(self.cfg.addr, &self.cfg.msg_types, &self.vids)
    }
}

pub fn mt_u8(t: &MessageType) -> u8 {
    match t {
        MessageType::MCtpControl => 0x00,
        MessageType::SpdmOverMctp => 0x05,
        MessageType::SecuredMessages => 0x06,
        MessageType::VendorDefinedPCI => 0x7E,
        MessageType::VendorDefinedIANA => 0x7F,
        MessageType::Invalid => 0xFF,
    }
}

pub fn mt_from(idx: u8) -> MessageType {
    match idx {
        0 => MessageType::MCtpControl,
        1 => MessageType::SpdmOverMctp,
        2 => MessageType::SecuredMessages,
        3 => MessageType::VendorDefinedPCI,
        4 => MessageType::VendorDefinedIANA,
        _ => MessageType::Invalid,
    }
}

pub fn cc_u8(c: &CompletionCode) -> u8 {
    match c {
        CompletionCode::Success => 0,
        CompletionCode::Error => 1,
        CompletionCode::ErrorInvalidData => 2,
        CompletionCode::ErrorInvalidLength => 3,
        CompletionCode::ErrorNotReady => 4,
        CompletionCode::ErrorUnsupportedCmd => 5,
    }
}

pub fn cc_from(c: u8) -> CompletionCode {
    match c {
        0 => CompletionCode::Success,
        1 => CompletionCode::Error,
        2 => CompletionCode::ErrorInvalidData,
        3 => CompletionCode::ErrorInvalidLength,
        4 => CompletionCode::ErrorNotReady,
        5 => CompletionCode::ErrorUnsupportedCmd,
        _ => panic!("harness: completion code {} has no variant", c),
    }
}

fn ek(e: &DecodeError) -> EK {
    match e {
        DecodeError::Unknown => EK::Unknown,
        DecodeError::ControlMessage(c) => match c {
            ControlMessageError::Unknown => EK::CmUnknown,
            ControlMessageError::InvalidRequestDataLength => EK::CmInvLen,
            ControlMessageError::InvalidControlHeader => EK::CmInvHdr,
            ControlMessageError::UnsuccessfulCompletionCode(c) => EK::CmUnsucc(cc_u8(c)),
            ControlMessageError::InvalidPEC => EK::CmInvPec,
        },
    }
}

/// Outcome of `decode_packet`.
#[derive(Clone, Debug, PartialEq, Eq, Hash)]
pub enum DecOut {
    /// payload is input[off .. off+len]; `inside` is false if the returned
    /// slice does not lie within the input
    Ok { ty: u8, off: usize, len: usize, inside: bool },
    Err { ty: u8, err: EK },
    Panic(String),
}

impl DecOut {
    pub fn is_ok(&self) -> bool {
        matches!(self, DecOut::Ok { .. })
    }
    pub fn is_panic(&self) -> bool {
        matches!(self, DecOut::Panic(_))
    }
    pub fn label(&self) -> &'static str {
        match self {
            DecOut::Ok { .. } => "ok",
            DecOut::Err { err, .. } => match err {
                EK::Unknown => "err.unknown",
                EK::CmUnknown => "err.cm_unknown",
                EK::CmInvLen => "err.invalid_length",
                EK::CmInvHdr => "err.invalid_control_header",
                EK::CmUnsucc(_) => "err.unsuccessful_cc",
                EK::CmInvPec => "err.invalid_pec",
            },
            DecOut::Panic(_) => "panic",
        }
    }
}

fn locate(input: &[u8], payload: &[u8]) -> (usize, usize, bool) {
    let base = input.as_ptr() as usize;
    let p = payload.as_ptr() as usize;
    let inside = p >= base && p + payload.len() <= base + input.len();
    if inside {
        (p - base, payload.len(), true)
    } else if payload.is_empty() {
        // an empty slice may legitimately dangle; treat as located at the end
        (input.len().saturating_sub(1), 0, false)
    } else {
        (usize::MAX, payload.len(), false)
    }
}

thread_local! {
    static RX: std::cell::RefCell<Vec<u8>> = std::cell::RefCell::new(vec![0u8; 8192]);
    static RX_SHARED: std::cell::Cell<bool> = const { std::cell::Cell::new(true) };
}

/// Environment choice: are all received packets delivered through one receive
/// buffer (same address, as on a device with a single rx buffer -- the default)
/// or does every packet live in its own allocation?
pub fn set_rx_shared(shared: bool) {
    RX_SHARED.with(|c| c.set(shared));
}

/// Deliver `bytes` to `f` through the thread's receive buffer.
#[inline]
fn with_rx<R>(bytes: &[u8], f: impl FnOnce(&[u8]) -> R) -> R {
    if RX_SHARED.with(|c| c.get()) && bytes.len() <= 8192 {
        RX.with(|b| {
            let mut b = b.borrow_mut();
            let n = bytes.len();
            b[..n].copy_from_slice(bytes);
            f(&b[..n])
        })
    } else {
        f(bytes)
    }
}

pub fn decode(ctx: &MCTPSMBusContext, input: &[u8]) -> DecOut {
    with_rx(input, |input| decode_at(ctx, input))
}

fn decode_at(ctx: &MCTPSMBusContext, input: &[u8]) -> DecOut {
    match trap(|| match ctx.decode_packet(input) {
        Ok((t, p)) => {
            let (off, len, inside) = locate(input, p);
            DecOut::Ok { ty: mt_u8(&t), off, len, inside }
        }
        Err((t, e)) => DecOut::Err { ty: mt_u8(&t), err: ek(&e) },
    }) {
        Ok(o) => o,
        Err(m) => DecOut::Panic(m),
    }
}

/// Outcome of `process_packet`.
#[derive(Clone, Debug, PartialEq, Eq, Hash)]
pub struct ProcOut {
    pub dec: DecOut,
    /// `Some(n)` as reported by the library (None also when it failed)
    pub resp_len: Option<usize>,
}

pub fn process(ctx: &MCTPSMBusContext, input: &[u8], resp: &mut [u8]) -> ProcOut {
    with_rx(input, |input| process_at(ctx, input, resp))
}

fn process_at(ctx: &MCTPSMBusContext, input: &[u8], resp: &mut [u8]) -> ProcOut {
    match trap(|| match ctx.process_packet(input, resp) {
        Ok(((t, p), n)) => {
            let (off, len, inside) = locate(input, p);
            ProcOut { dec: DecOut::Ok { ty: mt_u8(&t), off, len, inside }, resp_len: n }
        }
        Err((t, e)) => ProcOut { dec: DecOut::Err { ty: mt_u8(&t), err: ek(&e) }, resp_len: None },
    }) {
        Ok(o) => o,
        Err(m) => ProcOut { dec: DecOut::Panic(m), resp_len: None },
    }
}

#[derive(Clone, Debug, PartialEq, Eq, Hash)]
pub enum LenOut {
    Ok(usize),
    Err { ty: u8, err: EK },
    Panic(String),
}

pub fn get_length(ctx: &MCTPSMBusContext, input: &[u8]) -> LenOut {
    with_rx(input, |input| get_length_at(ctx, input))
}

fn get_length_at(ctx: &MCTPSMBusContext, input: &[u8]) -> LenOut {
    match trap(|| match ctx.get_length(input) {
        Ok(n) => LenOut::Ok(n),
        Err((t, e)) => LenOut::Err { ty: mt_u8(&t), err: ek(&e) },
    }) {
        Ok(o) => o,
        Err(m) => LenOut::Panic(m),
    }
}

/// Outcome of an encoder call.
#[derive(Clone, Debug, PartialEq, Eq, Hash)]
pub enum EncOut {
    Ok(usize),
    Refused,
    Panic(String),
}

fn set_eid_op(op: u8) -> MCTPSetEndpointIDOperations {
    match op & 3 {
        0 => MCTPSetEndpointIDOperations::SetEID,
        1 => MCTPSetEndpointIDOperations::ForceEID,
        2 => MCTPSetEndpointIDOperations::ResetEID,
        _ => MCTPSetEndpointIDOperations::SetDiscoveredFlag,
    }
}

fn version_query(q: u8) -> MCTPVersionQuery {
    match q {
        0 => MCTPVersionQuery::MCTPBaseSpec,
        1 => MCTPVersionQuery::MCTPControlProcMessage,
        2 => MCTPVersionQuery::DSP0241,
        3 => MCTPVersionQuery::DSP0261,
        _ => MCTPVersionQuery::DSP0261_2,
    }
}

fn alloc_op(op: u8) -> AllocateEndpointIDOperation {
    match op {
        0 => AllocateEndpointIDOperation::AllocateEIDs,
        1 => AllocateEndpointIDOperation::ForceAllocation,
        _ => AllocateEndpointIDOperation::GetAllocationInformation,
    }
}

fn entry_type(t: u8) -> RoutingInformationUpdateEntryType {
    match t & 3 {
        0 => RoutingInformationUpdateEntryType::SingleEndpointNotBridge,
        1 => RoutingInformationUpdateEntryType::EIDRangeIncludeBridge,
        2 => RoutingInformationUpdateEntryType::SingleEndpointBridge,
        _ => RoutingInformationUpdateEntryType::EIDRangeNotIncludeBridge,
    }
}

/// Call the encoder described by `call` on `ctx` (untrapped).
pub fn enc_raw(ctx: &MCTPSMBusContext, call: &EncCall, dst: u8, buf: &mut [u8]) -> Result<usize, ()> {
    use EncCall::*;
    let rq = ctx.get_request();
    let rs = ctx.get_response();
    match call {
        ReqSetEid { op, eid } => rq.set_endpoint_id(dst, set_eid_op(*op), *eid, buf),
        ReqGetEid => rq.get_endpoint_id(dst, buf),
        ReqGetUuid => rq.get_endpoint_uuid(dst, buf),
        ReqGetVersion { q } => rq.get_mctp_version_support(dst, version_query(*q), buf),
        ReqGetMsgTypes => rq.get_message_type_suport(dst, buf),
        ReqGetVendor { sel } => rq.get_vendor_defined_message_support(dst, *sel, buf),
        ReqResolveEid { eid } => rq.resolve_endpoint_id(dst, *eid, buf),
        ReqAllocate { op, size, first } => rq.allocate_endpoint_ids(dst, alloc_op(*op), *size, *first, buf),
        ReqRouting { entries, via_new } => {
            let es: Vec<SMBusRoutingInformationUpdateEntry<[u8; 4]>> = entries
                .iter()
                .map(|e| {
                    if *via_new {
                        SMBusRoutingInformationUpdateEntry::new(entry_type(e[0]), e[1], e[2], e[3])
                    } else {
                        SMBusRoutingInformationUpdateEntry::new_from_buf(*e)
                    }
                })
                .collect();
            rq.routing_information_update(dst, &es, buf)
        }
        ReqGetRoutingTable { h } => rq.get_routing_table_entries(dst, *h, buf),
        ReqPrepare => rq.prepare_for_endpoint_discovery(dst, buf),
        ReqDiscovery => rq.endpoint_discovery(dst, buf),
        ReqNotify => rq.discovery_notify(dst, buf),
        ReqNetworkId => rq.get_network_id(dst, buf),
        ReqQueryHop { eid, ty } => rq.query_hop(dst, *eid, mt_from(*ty), buf),
        ReqResolveUuid { uuid, h } => rq.resolve_uuid(dst, uuid, *h, buf),
        ReqQueryRate => rq.query_rate_limit(dst, buf),
        RespSetEid { cc, assign, alloc } => rs.set_endpoint_id(
            cc_from(*cc),
            dst,
            if *assign == 0 {
                MCTPSetEndpointIDAssignmentStatus::Accpeted
            } else {
                MCTPSetEndpointIDAssignmentStatus::Rejected
            },
            match alloc {
                0 => MCTPSetEndpointIDAllocationStatus::NoIDPool,
                1 => MCTPSetEndpointIDAllocationStatus::RequiresAllocation,
                _ => MCTPSetEndpointIDAllocationStatus::AlreadyAllocated,
            },
            buf,
        ),
        RespGetEid { cc, ty, idty, fair } => rs.get_endpoint_id(
            cc_from(*cc),
            dst,
            if *ty == 0 { MCTPGetEndpointIDEndpointType::Simple } else { MCTPGetEndpointIDEndpointType::Bus },
            match idty {
                0 => MCTPGetEndpointIDEndpointIDType::DynamicEID,
                1 => MCTPGetEndpointIDEndpointIDType::StaticEID,
                2 => MCTPGetEndpointIDEndpointIDType::StaticPresentMatchEID,
                _ => MCTPGetEndpointIDEndpointIDType::StaticPresentNoMatchEID,
            },
            *fair,
            buf,
        ),
        RespUuid { cc, uuid } => rs.get_endpoint_uuid(cc_from(*cc), dst, uuid, buf),
        RespVersion { cc } => rs.get_mctp_version_support(cc_from(*cc), dst, buf),
        RespMsgTypes { cc, types } => rs.get_message_type_suport(cc_from(*cc), dst, types, buf),
        RespVendor { cc, sel, field } => {
            rs.get_vendor_defined_message_support(cc_from(*cc), dst, *sel, field, buf)
        }
        Vendor { fmt, data, num, msg } => rq.vendor_defined(
            dst,
            &VendorIDFormat { format: *fmt, data: *data, numeric_value: *num },
            msg,
            buf,
        ),
        Raw { half, writer, hdr, data } => {
            let h: Option<&[u8]> = hdr.as_deref();
            fn go<T: SMBusMCTPRequestResponse>(
                t: &T,
                w: Writer,
                dst: u8,
                h: &Option<&[u8]>,
                data: &[u8],
                buf: &mut [u8],
            ) -> Result<usize, ()> {
                match w {
                    Writer::Control => t.generate_control_packet_bytes(dst, h, data, buf),
                    Writer::Pci => t.generate_pci_msg_packet_bytes(dst, h, data, buf),
                    Writer::Iana => t.generate_iana_msg_packet_bytes(dst, h, data, buf),
                    Writer::Spdm => {
                        t.generate_spdm_msg_packet_bytes(dst, MessageType::SpdmOverMctp, h, data, buf)
                    }
                    Writer::Secured => {
                        t.generate_spdm_msg_packet_bytes(dst, MessageType::SecuredMessages, h, data, buf)
                    }
                }
            }
            match half {
                Half::Req => go(rq, *writer, dst, &h, data, buf),
                Half::Resp => go(rs, *writer, dst, &h, data, buf),
            }
        }
    }
}

pub fn encode(ctx: &MCTPSMBusContext, call: &EncCall, dst: u8, buf: &mut [u8]) -> EncOut {
    match trap(|| enc_raw(ctx, call, dst, buf)) {
        Ok(Ok(n)) => EncOut::Ok(n),
        Ok(Err(())) => EncOut::Refused,
        Err(m) => EncOut::Panic(m),
    }
}

/// Observation of one step of a history.
#[derive(Clone, Debug, PartialEq, Eq, Hash)]
pub struct StepObs {
    pub out: StepOut,
    pub eid_req: u8,
    pub eid_resp: u8,
}

#[derive(Clone, Debug, PartialEq, Eq, Hash)]
pub enum StepOut {
    /// process_packet: outcome, the bytes of the response buffer that differ
    /// from its poison (as the measured written extent end), the buffer prefix
    Proc { out: ProcOut, extent: usize, resp: Vec<u8> },
    Dec(DecOut),
    Len(LenOut),
    Unit,
    Panic(String),
}

pub const RESP_BUF: usize = 128;

#[inline]
pub fn poison(i: usize, flavour: u8) -> u8 {
    (0xA5u8 ^ (i as u8).wrapping_mul(29)) ^ flavour
}

/// Apply one event to a live context and observe it.  The response buffer is
/// poisoned with two different patterns (the call is made on a *twin* context
/// for the second pattern by the callers that need it); here a single pattern
/// is used and the written extent is the last position that differs.
pub fn apply(ctx: &mut MCTPSMBusContext, ev: &Event) -> StepObs {
    let out = match ev {
        Event::Process(p) => {
            let mut resp = [0u8; RESP_BUF];
            for (i, b) in resp.iter_mut().enumerate() {
                *b = poison(i, 0);
            }
            let out = process(ctx, p, &mut resp);
            let mut extent = 0;
            for i in (0..RESP_BUF).rev() {
                if resp[i] != poison(i, 0) {
                    extent = i + 1;
                    break;
                }
            }
            let keep = out.resp_len.unwrap_or(0).max(extent).min(RESP_BUF);
            StepOut::Proc { out, extent, resp: resp[..keep].to_vec() }
        }
        Event::Decode(p) => StepOut::Dec(decode(ctx, p)),
        Event::GetLength(p) => StepOut::Len(get_length(ctx, p)),
        Event::SetUuid(u) => match trap(|| ctx.set_uuid(u)) {
            Ok(()) => StepOut::Unit,
            Err(m) => StepOut::Panic(m),
        },
        Event::SetEidReq(v) => match trap(|| ctx.get_request().set_eid(*v)) {
            Ok(()) => StepOut::Unit,
            Err(m) => StepOut::Panic(m),
        },
        Event::SetEidResp(v) => match trap(|| ctx.get_response().set_eid(*v)) {
            Ok(()) => StepOut::Unit,
            Err(m) => StepOut::Panic(m),
        },
        Event::Encode { call, dst } => {
            let mut scratch = [0u8; 600];
            match encode(ctx, call, *dst, &mut scratch) {
                EncOut::Panic(m) => StepOut::Panic(m),
                _ => StepOut::Unit,
            }
        }
    };
    StepObs { out, eid_req: ctx.get_request().get_eid(), eid_resp: ctx.get_response().get_eid() }
}


// ---------------------------------------------------------------------------
// ISOLATION hook: "another context does something now".  Set only by the
// single-threaded isolation child (`iso.rs`); fired once after a context's
// set-up history has been applied and before the judged call is made.
// ---------------------------------------------------------------------------
thread_local! {
    static OTHER_CTX_HOOK: std::cell::RefCell<Option<Box<dyn FnMut()>>> = const { std::cell::RefCell::new(None) };
}
thread_local! {
    static HOOK_SUSPENDED: std::cell::Cell<bool> = const { std::cell::Cell::new(false) };
}
pub fn suspend_other_ctx_hook(on: bool) {
    HOOK_SUSPENDED.with(|c| c.set(on));
}
pub fn set_other_ctx_hook(h: Option<Box<dyn FnMut()>>) {
    OTHER_CTX_HOOK.with(|c| *c.borrow_mut() = h);
}
#[inline]
pub fn fire_other_ctx_hook() {
    if HOOK_SUSPENDED.with(|c| c.get()) {
        return;
    }
    OTHER_CTX_HOOK.with(|c| {
        if let Ok(mut g) = c.try_borrow_mut() {
            if let Some(h) = g.as_mut() {
                h();
            }
        }
    });
}
