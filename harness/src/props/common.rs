//! Contexts and packet corpora shared by several properties.
use crate::refmodel::*;
use crate::subject::{self, Owned};
use crate::types::*;
use libmctp::smbus::MCTPSMBusContext;

pub const U1: [u8; 16] = [0x10, 0x21, 0x32, 0x43, 0x54, 0x65, 0x76, 0x87, 0x98, 0xA9, 0xBA, 0xCB, 0xDC, 0xED, 0xFE, 0x0F];
pub const U2: [u8; 16] = [0xF0, 0xE1, 0xD2, 0xC3, 0xB4, 0xA5, 0x96, 0x87, 0x78, 0x69, 0x5A, 0x4B, 0x3C, 0x2D, 0x1E, 0x0F];

/// A context description: configuration plus the history that brings a fresh
/// context into the wanted state.
#[derive(Clone, Debug, serde::Serialize, serde::Deserialize, PartialEq, Eq, Hash)]
pub struct CtxSpec {
    pub cfg: Cfg,
    pub history: Vec<Event>,
}

impl CtxSpec {
    pub fn fresh(cfg: Cfg) -> Self {
        CtxSpec { cfg, history: vec![] }
    }
}

/// Build the live context of a spec.  The history is applied through the
/// subject adapter (panics trapped and ignored: specs only use events that the
/// reference model answers).
pub fn build<'a>(owned: &'a Owned, history: &[Event]) -> MCTPSMBusContext<'a> {
    let mut ctx = owned.ctx();
    for ev in history {
        let _ = subject::apply(&mut ctx, ev);
    }
    subject::fire_other_ctx_hook();
    ctx
}

/// The reference endpoint after the same history.
pub fn build_ref(spec: &CtxSpec) -> RefEndpoint {
    let mut r = RefEndpoint::new(&spec.cfg);
    for ev in &spec.history {
        match ev {
            Event::Process(p) => {
                let _ = r.process(p);
            }
            other => r.apply(other),
        }
    }
    r
}

pub fn set_eid_req(src: u8, dst: u8, op: u8, eid: u8) -> Vec<u8> {
    forge_request(src, dst, 0, false, 0x01, &[op, eid])
}

/// The "dirty" receiving context: 16 mixed vendor sets, 30 message types, a
/// UUID, an assigned EID and a processed vendor-support query.
pub fn dirty_spec(addr: u8) -> CtxSpec {
    CtxSpec {
        cfg: Cfg::dirty(addr),
        history: vec![
            Event::SetUuid(U1),
            Event::Process(set_eid_req(0x10, addr, 0, 0x99)),
            Event::Process(forge_request(0x10, addr, 0, false, 0x06, &[3])),
            // ... and it has also decoded, probed and encoded things before
            Event::Decode(forge_request(0x10, addr, 7, false, 0x01, &[1, 0x77])),
            Event::GetLength(vec![0x46, 0x0F, 0xF0, 0x21]),
            Event::Encode { call: EncCall::RespMsgTypes { cc: 0, types: vec![0xBB; 30] }, dst: 0x33 },
            Event::Encode { call: EncCall::Vendor { fmt: 1, data: 0x0102_0304, num: 5, msg: vec![0xEE; 40] }, dst: 0x44 },
        ],
    }
}

/// Receiving contexts (`ctxs` of DESIGN §6): fresh simple, bare with another
/// address, dirty.
pub fn recv_specs() -> Vec<CtxSpec> {
    vec![CtxSpec::fresh(Cfg::simple(0x23)), CtxSpec::fresh(Cfg::bare(0x6E)), dirty_spec(0x51)]
}

/// Contexts an encoder is called on (`enc_ctxs`): fresh (EID 0); EID 0x42 stored
/// through both accessors; EID 0x99 assigned by a processed Set Endpoint ID;
/// a vendor-support query processed.  All EIDs differ from the address.
pub fn enc_specs(addr: u8) -> Vec<CtxSpec> {
    let cfg = Cfg { addr, msg_types: vec![0x7E, 0x05], vendors: vec![(0, 0x1414, 4), (1, 0xDEADBEEF, 9)] };
    vec![
        CtxSpec::fresh(cfg.clone()),
        CtxSpec { cfg: cfg.clone(), history: vec![Event::SetEidReq(0x42), Event::SetEidResp(0x42)] },
        CtxSpec { cfg: cfg.clone(), history: vec![Event::Process(set_eid_req(0x10, addr, 0, 0x99))] },
        CtxSpec {
            cfg,
            history: vec![Event::SetEidResp(0x3C), Event::Process(forge_request(0x10, addr, 0, false, 0x06, &[0]))],
        },
    ]
}
