//! C12-C15: the responder properties (endpoint state machine).
use super::common::*;
use super::dec::{raw_frame, DST, SRC};
use super::enc::{lane_bytes, lane_vec};
use super::*;
use crate::engine::{Ix, ReplayOut};
use crate::explore::*;
use crate::refmodel::*;
use crate::subject::{self, Owned, StepOut};
use crate::types::*;
use serde_json::{json, Value};

fn req(cmd: u8, data: &[u8]) -> Event {
    Event::Process(forge_request(SRC, DST, 0, false, cmd, data))
}

fn flip(mut p: Vec<u8>, pos: usize, mask: u8) -> Vec<u8> {
    let n = p.len();
    p[pos.min(n - 1)] ^= mask;
    p
}

/// Σ13: the C13 alphabet (34 events), for a responder at address DST.
pub fn sigma13() -> Vec<Event> {
    let mut v = vec![];
    for op in [0u8, 1] {
        // 0x10 collides with the requester's (and the probes') address, 0x23 with the
        // responder's own address: forced collisions (seeded changes C01-r2-1, C15-r2-2)
        for e in [0x01u8, 0x02, SRC, DST, 0xFE] {
            v.push(req(0x01, &[op, e]));
        }
    }
    for e in [0x01u8, 0xFE] {
        v.push(req(0x01, &[3, e]));
    }
    v.push(req(0x02, &[]));
    v.push(req(0x03, &[]));
    v.push(req(0x04, &[0xFF]));
    v.push(req(0x05, &[]));
    v.push(req(0x06, &[0]));
    // a second requester with another instance id (anything keyed on the requester or the id)
    v.push(Event::Process(forge_request(0x51, DST, 7, false, 0x02, &[])));
    v.push(Event::Process(forge_request(0x51, DST, 7, false, 0x01, &[0, 0x02])));
    // responses carrying EID-like data
    v.push(Event::Process(forge_response(SRC, DST, 0, 0x01, 0, &[0x00, 0x66, 0x00])));
    v.push(Event::Process(forge_response(SRC, DST, 0, 0x02, 0, &[0x67, 0x00, 0x00])));
    // other message types whose bodies look like a Set EID request
    let lookalike = [0x80u8, 0x01, 0x00, 0x68];
    for t in [T_PCI, T_IANA, T_SPDM, T_SECURED] {
        v.push(Event::Process(raw_frame(SRC, DST, t, &lookalike)));
    }
    // rejected variants of Set EID(Set, 0x33)
    let good = forge_request(SRC, DST, 0, false, 0x01, &[0, 0x33]);
    v.push(Event::Process(forge_request(SRC, DST, 0, false, 0x01, &[0, 0x33, 0x00]))); // wrong length
    v.push(Event::Process(flip(good.clone(), good.len() - 1, 0x01))); // PEC bit
    v.push(Event::Process(flip(good.clone(), 12, 0x40))); // EID byte, stale PEC
    let mut ver2 = good.clone();
    ver2[4] = 0x02;
    fix_pec(&mut ver2);
    v.push(Event::Process(ver2));
    let mut ic = good.clone();
    ic[8] |= 0x80;
    fix_pec(&mut ic);
    v.push(Event::Process(ic));
    let mut ty = good.clone();
    ty[8] = 0x01;
    fix_pec(&mut ty);
    v.push(Event::Process(ty));
    // decode only
    v.push(Event::Decode(forge_request(SRC, DST, 0, false, 0x01, &[1, 0x44])));
    // accessor writes; 0x02 collides on purpose with an assignable EID of the alphabet
    for val in [0x02u8, 0x00] {
        v.push(Event::SetEidReq(val));
        v.push(Event::SetEidResp(val));
    }
    v
}

/// MIXSEQ: one machine whose alphabet mixes *every kind* of call on one context
/// -- processed requests and non-requests, decode-only calls, length probes,
/// accessor and UUID stores, and encoder calls (valid and refused) -- so that
/// state cached by one kind of call and misused by another kind is reachable.
/// 20 message types (responses longer than 32 bytes), 4 vendor sets.
pub fn mixed_machine() -> Machine {
    let a = DST;
    let cfg = Cfg {
        addr: a,
        // 20 types (responses longer than 32 bytes), the vendor-defined and control types among them
        msg_types: [0x7Eu8, 0x7F, 0x05, 0x00].into_iter().chain((4..20).map(|i| 0x40 + i as u8)).collect(),
        vendors: vec![(0, 0x1414, 4), (1, 0xDEADBEEF, 9), (0, 0x8086, 0), (1, 0x0000_1414, 4)],
    };
    let rq = |cmd: u8, d: &[u8]| forge_request(SRC, a, 0, false, cmd, d);
    let good_geid = rq(0x02, &[]);
    let mut frag_start = raw_frame(SRC, a, T_PCI, &[0x5A; 100]);
    frag_start[7] = 0x88;
    fix_pec(&mut frag_start);
    let mut frag_mid = raw_frame(SRC, a, T_PCI, &[0x5B; 200]);
    frag_mid[7] = 0x08;
    fix_pec(&mut frag_mid);
    let bad_seteid = flip(rq(0x01, &[0, 0x33]), 12, 0x40);
    let bad_geid = flip(good_geid.clone(), good_geid.len() - 1, 0x01);
    let bad_vendor = flip(raw_frame(SRC, a, T_PCI, &[0x14, 0x14, 1, 2]), 10, 0x80);
    use EncCall::*;
    let enc = |call: EncCall, dst: u8| Event::Encode { call, dst };
    let alphabet = vec![
        // processed requests
        Event::Process(rq(0x01, &[0, SRC])),
        Event::Process(rq(0x01, &[1, 0x7E])),
        Event::Process(rq(0x01, &[3, 0x55])),
        Event::Process(good_geid.clone()),
        Event::Process(rq(0x03, &[])),
        Event::Process(rq(0x04, &[0xFF])),
        Event::Process(rq(0x05, &[])),
        Event::Process(rq(0x06, &[0])),
        Event::Process(rq(0x06, &[3])),
        // processed non-requests and corrupted packets
        Event::Process(forge_response(0x34, a, 0, 0x01, 0, &[0x00, 0x56, 0x00])),
        Event::Process(raw_frame(SRC, a, T_PCI, &[0x14, 0x14, 1, 2])),
        Event::Process(frag_start.clone()),
        Event::Process(frag_mid),
        Event::Process(bad_seteid),
        Event::Process(bad_geid.clone()),
        // decode-only
        Event::Decode(good_geid.clone()),
        Event::Decode(frag_start),
        Event::Decode(bad_vendor),
        // length probes: a good header, the same byte 0 with another command code, a bigger count
        Event::GetLength(good_geid[..3].to_vec()),
        Event::GetLength(vec![good_geid[0], 0x0E, good_geid[2]]),
        Event::GetLength(vec![good_geid[0], 0x0F, 0xF0, 0x21]),
        // stores
        Event::SetUuid(U1),
        Event::SetEidReq(0x56),
        Event::SetEidResp(0x41),
        // encoder calls on the same context
        enc(ReqGetEid, SRC),
        enc(ReqSetEid { op: 0, eid: 0x56 }, 0x34),
        enc(Vendor { fmt: 0, data: 0x1414, num: 1, msg: vec![0x51; 4] }, 0x34),
        enc(Vendor { fmt: 0, data: 0x1414, num: 1, msg: vec![0x53; 260] }, 0x34),
        enc(Vendor { fmt: 1, data: 0x0000_1414, num: 1, msg: vec![0x56; 4] }, 0x34),
        enc(RespGetEid { cc: 0, ty: 0, idty: 2, fair: true }, SRC),
        enc(RespSetEid { cc: 0, assign: 1, alloc: 1 }, SRC),
        enc(RespVersion { cc: 0 }, SRC),
        enc(RespMsgTypes { cc: 0, types: vec![0xBB; 31] }, SRC),
        enc(RespUuid { cc: 0, uuid: [0xCC; 16] }, SRC),
        // a valid packet followed by trailing bytes (a padded read): the final byte is not its PEC
        Event::Process([&good_geid[..], &[0x00, 0x00, 0x00][..]].concat()),
        Event::Decode([&good_geid[..], &[0x5A, 0x5A, 0x5A][..]].concat()),
        // our own requests to the peer at 0x34 and the peer's answers, carrying data that differ
        // from our own state (anything "learned" from a response must not leak into our answers)
        enc(ReqGetVersion { q: 0 }, 0x34),
        Event::Process(forge_response(0x34, a, 5, 0x04, 0, &[0x01, 0xF1, 0xF2, 0xF0, 0x00])),
        enc(ReqGetVendor { sel: 0 }, 0x34),
        Event::Process(forge_response(0x34, a, 5, 0x06, 0, &[0x01, 0x00, 0xAB, 0xCD, 0x00, 0x07])),
        enc(ReqGetUuid, 0x34),
        Event::Process(forge_response(0x34, a, 5, 0x03, 0, &[0xEE; 16])),
        enc(ReqGetMsgTypes, 0x34),
        Event::Process(forge_response(0x34, a, 5, 0x05, 0, &[0x02, 0x01, 0x02])),
    ];
    Machine { cfg, init: vec![], alphabet }
}

/// RUNSEQ alphabet: Get Endpoint ID from five requesters, an assignment, a
/// packet that fails its PEC, a good vendor packet, a decode-only call, a probe
/// and an encoder call; repeat counts 1, 3, 4, 16, 17.
pub fn runseq_events(cfg: &Cfg) -> Vec<Event> {
    let a = cfg.addr;
    let mut v: Vec<Event> = [0x10u8, 0x11, 0x12, 0x13, 0x14].iter().map(|&r| Event::Process(forge_request(r, a, 0, false, 0x02, &[]))).collect();
    v.push(Event::Process(forge_request(0x10, a, 0, false, 0x01, &[0, 0x21])));
    let good = forge_request(0x10, a, 0, false, 0x03, &[]);
    v.push(Event::Process(flip(good.clone(), good.len() - 1, 0x04)));
    v.push(Event::Process(raw_frame(0x10, a, T_PCI, &[0x14, 0x14, 1, 2])));
    v.push(Event::Decode(flip(good.clone(), 10, 0x10)));
    v.push(Event::GetLength(good[..3].to_vec()));
    v.push(Event::Encode { call: EncCall::ReqGetEid, dst: 0x34 });
    v
}
pub const RUN_REPEATS: [usize; 9] = [1, 2, 3, 4, 5, 8, 9, 16, 17];

pub fn runseq_for(run: &mut Run, prop: &'static str, filter: &Filter) {
    let cfg = pair_cfg();
    let ev = runseq_events(&cfg);
    // depth 3 over all 99 symbols; depth 5 over the requesters alone with repeats {1, 3}; depth 3 with
    // repeat counts around the 8-bit boundary (255, 256, 257) where counters wrap or carry
    runseq(run, prop, "mixed events", &cfg, &ev, &RUN_REPEATS, 3, filter);
    runseq(run, prop, "five requesters", &cfg, &ev[..5], &[1, 3], if run.tier.thorough() { 6 } else { 5 }, filter);
    runseq(run, prop, "mixed events, 8-bit boundary", &cfg, &ev, &[1, 255, 256, 257], if run.tier.thorough() { 3 } else { 2 }, filter);
    thrash_for(run, prop, filter);
    iid_walks_for(run, prop, filter);
}

/// Instance-id walks: runs of 1..=128 requests from one requester whose instance
/// ids follow an arithmetic pattern (ascending, descending, steps of 2, 3, 7,
/// 16, from 0 or 31); the last request and the probes are judged.
pub fn iid_walks_for(run: &mut Run, prop: &'static str, filter: &Filter) {
    let cfg = pair_cfg();
    let probe_pkts = probes(&cfg);
    run.sweep("instance-id walks: 12 arithmetic patterns x run lengths 1..=128 x 2 commands, last request judged", 12 * 128 * 2, |acc, i| {
        let mut ix = Ix(i);
        let cmd_set = ix.take(2) == 1;
        let len = ix.take(128) as usize + 1;
        let step = [1u8, 31, 2, 3, 7, 16][ix.take(6) as usize];
        let start = [0u8, 31][ix.take(2) as usize];
        let mk = |k: usize| {
            let iid = start.wrapping_add(step.wrapping_mul(k as u8)) & 0x1F;
            if cmd_set {
                forge_request(SRC, DST, iid, false, 0x01, &[0, 0x20 + (k % 64) as u8])
            } else {
                forge_request(SRC, DST, iid, false, 0x02, &[])
            }
        };
        let hist: Vec<Event> = (0..len - 1).map(|k| Event::Process(mk(k))).collect();
        let m = Machine { cfg: cfg.clone(), init: hist, alphabet: vec![Event::Process(mk(len - 1))] };
        let owned = Owned::new(&cfg);
        let node = m.eval(&owned, &probe_pkts, &[0]);
        acc.evals += 1;
        acc.trans += node.calls;
        acc.validated += 1;
        acc.state(node.key ^ i);
        acc.nontrivial(Fnv::default().u64(0x11D).u64(i).finish());
        let mut h = m.init.clone();
        h.push(m.alphabet[0].clone());
        for df in node.diffs.iter().filter(|df| filter(df, &h)) {
            acc.violation(h.len() as u64, "instance-id-walk", format!("after {} request(s): {}", h.len(), df.text), || json!({"prop": prop, "check": "history", "cfg": m.cfg, "init": m.init, "history": [m.alphabet[0].clone()]}));
        }
    });
}

/// THRASH: the access pattern that defeats caches -- a key used k times, then N
/// distinct other keys once each, then the first key (or the first of the sweep,
/// or a fresh one) again.  Keys are requesters; for k in 1..=3, N in 0..=20,
/// four commands.
pub fn thrash_for(run: &mut Run, prop: &'static str, filter: &Filter) {
    let cfg = Cfg { addr: DST, msg_types: vec![0x7E, 0x05, 0x00], vendors: vec![(0, 0x1414, 4), (1, 0xDEADBEEF, 9)] };
    let cmds: [(u8, &[u8]); 5] = [(0x02, &[]), (0x03, &[]), (0x04, &[0xFF]), (0x05, &[]), (0x06, &[1])];
    let probe_pkts = probes(&cfg);
    run.sweep("THRASH: requester A x k, then N distinct requesters, then optionally a revisit (A / first / second of the sweep), then A / the first of them / a fresh one (k in 1..=3, N in 0..=20, 5 commands, sweeps of the same or of rotating commands)", 5 * 3 * 21 * 3 * 2 * 4, |acc, i| {
        let mut ix = Ix(i);
        let rot = ix.take(2) == 1;
        let mid = ix.take(4);
        let revisit = ix.take(3);
        let n = ix.take(21) as u8;
        let k = ix.take(3) + 1;
        let (cmd, data) = cmds[ix.take(5) as usize];
        let a = 0x40u8;
        let mk = |r: u8, j: usize| {
            let (c, d) = if rot { cmds[j % 5] } else { (cmd, data) };
            Event::Process(forge_request(r, DST, 0, false, c, d))
        };
        let mut hist: Vec<Event> = (0..k).map(|_| Event::Process(forge_request(a, DST, 0, false, cmd, data))).collect();
        for j in 0..n {
            hist.push(mk(0x41 + j, j as usize));
        }
        match mid {
            1 => hist.push(Event::Process(forge_request(a, DST, 0, false, cmd, data))),
            2 => hist.push(Event::Process(forge_request(0x41, DST, 0, false, cmd, data))),
            3 => hist.push(Event::Process(forge_request(0x42, DST, 0, false, cmd, data))),
            _ => {}
        }
        let last = match revisit {
            0 => Event::Process(forge_request(a, DST, 0, false, cmd, data)),
            1 => Event::Process(forge_request(0x41, DST, 0, false, cmd, data)),
            _ => Event::Process(forge_request(0x7B, DST, 0, false, cmd, data)),
        };
        let m = Machine { cfg: cfg.clone(), init: hist, alphabet: vec![last] };
        let owned = Owned::new(&cfg);
        let node = m.eval(&owned, &probe_pkts, &[0]);
        acc.evals += 1;
        acc.trans += node.calls;
        acc.validated += 1;
        acc.state(node.key ^ i);
        if n >= 2 {
            acc.nontrivial(Fnv::default().u64(0x7A5).u64(i).finish());
        }
        let mut h = m.init.clone();
        h.push(m.alphabet[0].clone());
        for df in node.diffs.iter().filter(|df| filter(df, &h)) {
            acc.violation(h.len() as u64, "thrash", format!("after {} call(s): {}", h.len(), df.text), || json!({"prop": prop, "check": "history", "cfg": m.cfg, "init": m.init, "history": [m.alphabet[0].clone()]}));
        }
    });
}

/// The complete small-request space for PAIRSEQ: the no-data commands from
/// every source EID with two instance ids, every version query byte, every
/// selector below n, every Set Endpoint ID (Set/Force/Set-Discovered x EID).
pub fn request_space(cfg: &Cfg) -> Vec<Vec<u8>> {
    let a = cfg.addr;
    let mut v = vec![];
    for cmd in [0x02u8, 0x03, 0x05] {
        for src in 0..=255u8 {
            for iid in [0u8, 7] {
                let mut p = forge_request(SRC, a, iid, false, cmd, &[]);
                p[6] = src;
                fix_pec(&mut p);
                v.push(p);
            }
        }
    }
    for q in 0..=255u8 {
        v.push(forge_request(SRC, a, 0, false, 0x04, &[q]));
    }
    for s in 0..cfg.vendors.len() as u8 {
        v.push(forge_request(SRC, a, 0, false, 0x06, &[s]));
    }
    for op in [0u8, 1, 3] {
        for e in 0..=255u8 {
            v.push(forge_request(SRC, a, 0, false, 0x01, &[op, e]));
        }
    }
    v
}

/// PAIRSEQ for one property: (decoded | processed) x processed over the request space.
pub fn pairseq_requests(run: &mut Run, prop: &'static str, cfg: &Cfg, filter: &Filter) {
    let r = request_space(cfg);
    let second: Vec<Event> = r.iter().map(|p| Event::Process(p.clone())).collect();
    let first: Vec<Event> = r.iter().map(|p| Event::Decode(p.clone())).chain(second.iter().cloned()).collect();
    pairseq(run, prop, "(every request decoded or processed) then (every request processed)", cfg, &first, &second, filter);
}

fn pair_cfg() -> Cfg {
    Cfg { addr: DST, msg_types: vec![0x7E, 0x05], vendors: vec![(0, 0x1414, 4), (1, 0xDEADBEEF, 9)] }
}

pub fn c13_filter(d: &Diff, _h: &[Event]) -> bool {
    matches!(d.aspect, Aspect::Eids | Aspect::Resp(0x01) | Aspect::Resp(0x02) | Aspect::Probe(0x01) | Aspect::Probe(0x02))
}

fn inits13() -> Vec<(&'static str, Vec<Event>)> {
    vec![
        ("fresh", vec![]),
        ("both cells 0x23", vec![Event::SetEidReq(DST), Event::SetEidResp(DST)]),
        ("cells 0x01/0x10 (out of sync, both assignable values)", vec![Event::SetEidReq(0x01), Event::SetEidResp(SRC)]),
    ]
}

fn record_stats(run: &mut Run, name: &str, st: &ExploreStats) {
    let mut cur = run.extra.get("bfs").cloned().unwrap_or_else(|| json!([]));
    cur.as_array_mut().unwrap().push(json!({
        "machine": name, "states": st.bfs_states, "transitions": st.bfs_transitions, "max_depth": st.bfs_max_depth,
        "merged_paths_checked_one_step_further": st.merged_paths_checked,
    }));
    run.extra.insert("bfs".into(), cur);
}

pub fn run_c13(run: &mut Run) {
    let thorough = run.tier.thorough();
    let depth = if thorough { 5 } else { 4 };
    run.rule = format!(
        "alphabet of 36 events (Set EID Set/Force x 5 EIDs incl. the requester's and the responder's own address, Set-Discovered x 2, 5 other commands, Get/Set EID from a second requester with another instance id, 2 responses, 4 look-alike vendor/SPDM messages, 6 rejected variants, decode-only, 4 accessor writes); stateless: every sequence of length <= {} from a fresh context and <= {} from two pre-seeded states; BFS to fixpoint from all three under the observational key with a one-step differential check on every merged path; all 254x2 x 254x2 ordered pairs of assignments over EIDs 0x01..=0xFE; oracle: reference endpoint (two EID cells) on accessors, Set/Get EID responses and the probe battery; non-trivial = histories of length >= 2 containing a state-changing event",
        depth,
        depth - 1
    );
    run.bound("stateless_depth", depth as u64);
    run.bound("alphabet", 36);
    run.assume("Set Endpoint ID requests carrying EID 0x00/0xFF are outside the property's quantifier and not in the alphabet");
    let cfg = Cfg::simple(DST);
    for (k, (iname, init)) in inits13().into_iter().enumerate() {
        let m = Machine { cfg: cfg.clone(), init, alphabet: sigma13() };
        let d = if k == 0 { depth } else { depth - 1 };
        stateless(run, "C13", &format!("sigma13 from {}", iname), &m, d, &c13_filter);
        let st = bfs(run, "C13", &format!("sigma13 from {}", iname), &m, &c13_filter, 100_000);
        record_stats(run, &format!("sigma13 from {}", iname), &st);
        if run.acc.viol_count == 0 {
            crosscheck_stateright(run, &format!("sigma13 from {}", iname), &m, &st);
        }
    }
    c13_accessor_values(run);
    c13_deviation_inputs(run);
    c13_assignment_pairs_iid(run);
    c13_smbus_header_collisions(run);
    stateless(run, "C13", "MIXSEQ (every kind of call on one context)", &mixed_machine(), depth, &c13_filter);
    pairseq_requests(run, "C13", &pair_cfg(), &c13_filter);
    runseq_for(run, "C13", &c13_filter);
    // full-domain breadth: every ordered pair of assignments over all EIDs 0x01..=0xFE
    let n1 = 254u64 * 2;
    run.sweep_chunked("every sequence of length <= 2 over Set EID(Set|Force, e), all e in 0x01..=0xFE", n1 + n1 * n1, |acc, lo, hi| {
        let owned = Owned::new(&cfg);
        let pk = probes(&cfg);
        for i in lo..hi {
            let seq: Vec<u64> = if i < n1 { vec![i] } else { vec![(i - n1) / n1, (i - n1) % n1] };
            let alphabet: Vec<Event> = seq.iter().map(|&s| req(0x01, &[(s / 254) as u8, (s % 254) as u8 + 1])).collect();
            let m = Machine { cfg: cfg.clone(), init: vec![], alphabet };
            let idx: Vec<u8> = (0..seq.len() as u8).collect();
            let node = m.eval(&owned, &pk, &idx);
            acc.evals += 1;
            acc.trans += node.calls;
            acc.validated += 1;
            acc.state(node.key);
            acc.nontrivial(Fnv::default().u64(0x13).u64(i).finish());
            let h = m.history(&idx);
            for df in node.diffs.iter().filter(|df| c13_filter(df, &h)) {
                acc.violation(seq.len() as u64, "assignment-pair", df.text.clone(), || json!({"prop": "C13", "check": "history", "cfg": m.cfg, "init": m.init, "history": h}));
            }
        }
    });
}

/// every value 0..=255 stored through either accessor (the statement's "or a
/// value since stored directly through an accessor"), then read back everywhere
fn c13_accessor_values(run: &mut Run) {
    let cfg = Cfg::simple(DST);
    run.sweep("every value 0..=255 stored through the request-half / response-half accessor (after an assignment), then Get EID twice", 256 * 2, |acc, i| {
        let v = (i % 256) as u8;
        let alphabet = vec![
            req(0x01, &[0, 0x31]),
            if i < 256 { Event::SetEidReq(v) } else { Event::SetEidResp(v) },
            req(0x02, &[]),
            req(0x02, &[]),
        ];
        let m = Machine { cfg: cfg.clone(), init: vec![], alphabet };
        let owned = Owned::new(&cfg);
        let pk = probes(&cfg);
        acc.evals += 1;
        acc.validated += 1;
        for l in 2..=4usize {
            let idx: Vec<u8> = (0..l as u8).collect();
            let node = m.eval(&owned, &pk, &idx);
            acc.trans += node.calls;
            acc.state(node.key);
            let h = m.history(&idx);
            for df in node.diffs.iter().filter(|df| c13_filter(df, &h)) {
                acc.violation(l as u64, "accessor-value", df.text.clone(), || json!({"prop": "C13", "check": "history", "cfg": m.cfg, "init": m.init, "history": h}));
            }
        }
        acc.nontrivial(Fnv::default().u64(0x131).u64(i).finish());
    });
}

/// "No other input changes it": every input of the t=1 / t=2 deviation spaces,
/// processed and decode-only, on a context whose halves hold (different) EIDs.
/// The reference decides whether the input is an accepted Set/Force request;
/// afterwards both accessors must hold what the reference holds.
fn c13_cheap(spec: &CtxSpec, owned: &Owned, bytes: &[u8]) -> (Option<String>, bool) {
    use libmctp::mctp_traits::SMBusMCTPRequestResponse;
    let mut r = build_ref(spec);
    let rd = ref_decode(bytes);
    if super::decprops::known_process(&r, &rd, bytes).is_some() {
        return (None, false);
    }
    let ctx = build(owned, &spec.history);
    let d = subject::decode(&ctx, bytes);
    if !d.is_panic() {
        let (a, b) = (ctx.get_request().get_eid(), ctx.get_response().get_eid());
        if (a, b) != (r.eid_req, r.eid_resp) {
            return (Some(format!("decode_packet({}) left the EID cells at {:#04x}/{:#04x}, they were {:#04x}/{:#04x}", hex(bytes), a, b, r.eid_req, r.eid_resp)), true);
        }
    }
    let mut resp = [0u8; subject::RESP_BUF];
    let p = subject::process(&ctx, bytes, &mut resp);
    let _ = r.process(bytes);
    if p.dec.is_panic() {
        return (None, true);
    }
    let (a, b) = (ctx.get_request().get_eid(), ctx.get_response().get_eid());
    if (a, b) != (r.eid_req, r.eid_resp) {
        return (Some(format!("after process_packet({}) the EID cells are {:#04x}/{:#04x}, expected {:#04x}/{:#04x}", hex(bytes), a, b, r.eid_req, r.eid_resp)), true);
    }
    (None, true)
}

/// Two consecutive assignments over (operation x instance id x EID) from one
/// requester: whatever identifies a "retry" (instance id, PEC, ...) must never
/// make a different assignment look like one.  Cheap oracle: cells and the EID
/// byte of the second response.
fn c13_assignment_pairs_iid(run: &mut Run) {
    let iids: Vec<u8> = if run.tier.thorough() { (0..32).collect() } else { vec![0, 1, 2, 3, 7, 15, 16, 31] };
    let ni = iids.len() as u64;
    let n1 = 2 * ni * 254;
    let cfg = Cfg::simple(DST);
    run.sweep_chunked(&format!("every ordered pair of assignments over 2 operations x {} instance ids x EIDs 0x01..=0xFE (cells and answered EID)", ni), n1 * n1, |acc, lo, hi| {
        use libmctp::mctp_traits::SMBusMCTPRequestResponse;
        let owned = Owned::new(&cfg);
        let mk = |k: u64| -> (u8, Vec<u8>) {
            let e = (k % 254) as u8 + 1;
            let iid = iids[((k / 254) % ni) as usize];
            let op = (k / (254 * ni)) as u8;
            (e, forge_request(SRC, DST, iid, false, 0x01, &[op, e]))
        };
        for i in lo..hi {
            let (_e1, p1) = mk(i / n1);
            let (e2, p2) = mk(i % n1);
            let ctx = owned.ctx();
            let mut resp = [0u8; 64];
            let _ = subject::process(&ctx, &p1, &mut resp);
            let mut resp2 = [0u8; 64];
            let out = subject::process(&ctx, &p2, &mut resp2);
            acc.evals += 1;
            acc.trans += 2;
            acc.validated += 1;
            let (a, b) = (ctx.get_request().get_eid(), ctx.get_response().get_eid());
            let answered = out.resp_len.map(|n| n >= 14 && resp2[11] == 0 && resp2[13] == e2).unwrap_or(false);
            if (a, b) != (e2, e2) || !answered {
                acc.violation(2, "assignment-pair", format!("after {} then {}: EID cells {:#04x}/{:#04x}, second response {}; the last accepted assignment carried {:#04x}", hex(&p1), hex(&p2), a, b, hex(&resp2[..out.resp_len.unwrap_or(0).min(64)]), e2), || {
                    json!({"prop": "C13", "check": "history", "cfg": cfg, "init": [], "history": [Event::Process(p1.clone()), Event::Process(p2.clone())]})
                });
            }
        }
        acc.outcome2("assignment-pairs-iid", "visited");
    });
}

/// The SMBus header bytes 0 and 3 (all 65 536 combinations) of an assigning and
/// a reading request, on contexts whose assigned EID collides with the request's
/// source EID / whose address collides with the header: the property's
/// "nothing else" includes the bytes the decoder is documented to ignore.
fn c13_smbus_header_collisions(run: &mut Run) {
    let cfg = Cfg::simple(DST);
    let specs = vec![
        CtxSpec::fresh(cfg.clone()),
        CtxSpec { cfg: cfg.clone(), history: vec![Event::Process(set_eid_req(0x7E, DST, 1, SRC))] },
        CtxSpec { cfg: cfg.clone(), history: vec![Event::SetEidReq(DST), Event::SetEidResp(DST)] },
    ];
    let bases = [forge_request(SRC, DST, 0, false, 0x01, &[0, 0x44]), forge_request(SRC, DST, 0, false, 0x02, &[]), forge_request(DST, DST, 0, false, 0x01, &[1, 0x45])];
    run.sweep("SMBus header bytes 0 x 3 (65 536) x 3 requests x 3 contexts (assigned EID = source EID, = own address), processed", 65536 * 3 * 3, |acc, i| {
        let mut ix = Ix(i);
        let b3 = ix.take(256) as u8;
        let b0 = ix.take(256) as u8;
        let mut p = bases[ix.take(3) as usize].clone();
        let spec = &specs[ix.take(3) as usize];
        p[0] = b0;
        p[3] = b3;
        fix_pec(&mut p);
        let m = Machine { cfg: spec.cfg.clone(), init: spec.history.clone(), alphabet: vec![Event::Process(p)] };
        let owned = Owned::new(&spec.cfg);
        let node = m.eval(&owned, &probes(&spec.cfg), &[0]);
        acc.evals += 1;
        acc.trans += node.calls;
        acc.validated += 1;
        if i % 13 == 0 {
            acc.state(node.key);
        }
        let h = m.history(&[0]);
        for df in node.diffs.iter().filter(|df| c13_filter(df, &h)) {
            acc.violation(3, "smbus-header", df.text.clone(), || json!({"prop": "C13", "check": "history", "cfg": m.cfg, "init": m.init, "history": h}));
        }
    });
}

fn c13_deviation_inputs(run: &mut Run) {
    let thorough = run.tier.thorough();
    let spec = CtxSpec { cfg: Cfg::simple(DST), history: vec![Event::SetEidReq(0x31), Event::SetEidResp(0x32)] };
    // t=1 over the core shapes: full node evaluation (step + probe battery)
    let t1c = super::dec::space_t1_core();
    run.sweep_chunked(&format!("{} processed on an EID-holding context (step + probes)", t1c.name), t1c.n(), |acc, lo, hi| {
        let owned = Owned::new(&spec.cfg);
        let pk = probes(&spec.cfg);
        let mut buf = Vec::with_capacity(320);
        for i in lo..hi {
            let (w, _) = t1c.get(i, &mut buf);
            acc.evals += 1;
            let r = build_ref(&spec);
            if super::decprops::known_process(&r, &ref_decode(&buf), &buf).is_some() {
                acc.skipped_known += 1;
                continue;
            }
            let m = Machine { cfg: spec.cfg.clone(), init: spec.history.clone(), alphabet: vec![Event::Process(buf.clone())] };
            let node = m.eval(&owned, &pk, &[0]);
            acc.trans += node.calls;
            acc.validated += 1;
            if i % 17 == 0 {
                acc.state(node.key);
            }
            let h = m.history(&[0]);
            for df in node.diffs.iter().filter(|df| c13_filter(df, &h)) {
                acc.violation(w + 1, "deviation-input", df.text.clone(), || json!({"prop": "C13", "check": "history", "cfg": m.cfg, "init": m.init, "history": h}));
            }
        }
    });
    // the whole t=1 space and the t=2 space: accessors against the reference
    let t1 = super::dec::space_t1();
    let t2 = super::dec::space_t2(thorough);
    for sp in [&t1, &t2] {
        run.sweep_chunked(&format!("{} processed and decoded on an EID-holding context (EID cells vs reference)", sp.name), sp.n(), |acc, lo, hi| {
            let owned = Owned::new(&spec.cfg);
            let mut buf = Vec::with_capacity(320);
            for i in lo..hi {
                let (w, _) = sp.get(i, &mut buf);
                acc.evals += 1;
                let (v, executed) = c13_cheap(&spec, &owned, &buf);
                if !executed {
                    acc.skipped_known += 1;
                    continue;
                }
                acc.trans += 2;
                acc.validated += 1;
                if let Some(d) = v {
                    acc.violation(w + 1, "deviation-input", d, || json!({"prop": "C13", "check": "cells", "spec": spec, "input": hex(&buf)}));
                }
            }
        });
    }
}

pub fn replay_c13(case: &Value) -> Result<ReplayOut, String> {
    if get_str(case, "check")? == "cells" {
        let spec: CtxSpec = get_de(case, "spec")?;
        let bytes = get_hex(case, "input")?;
        let owned = Owned::new(&spec.cfg);
        let (v, _) = c13_cheap(&spec, &owned, &bytes);
        return Ok(ReplayOut { observed: format!("{:?}", v), violations: v.into_iter().collect() });
    }
    replay_filtered(case, &c13_filter)
}

fn replay_filtered(case: &Value, filter: &Filter) -> Result<ReplayOut, String> {
    match get_str(case, "check")? {
        "history" => {
            let (diffs, _last, observed) = replay_history(case)?;
            let history: Vec<Event> = get_de(case, "history")?;
            Ok(ReplayOut { violations: diffs.iter().filter(|d| filter(d, &history)).map(|d| d.text.clone()).collect(), observed })
        }
        "history-pair" => {
            let (same, observed) = replay_pair(case)?;
            Ok(ReplayOut { violations: if same { vec![] } else { vec!["the two histories are observed differently".into()] }, observed })
        }
        o => Err(format!("unknown check {}", o)),
    }
}

// ---------------------------------------------------------------------------
// C15
// ---------------------------------------------------------------------------

fn sigma15(cfg: &Cfg) -> Vec<Event> {
    let a = cfg.addr;
    let n = cfg.vendors.len() as u8;
    let rq = |cmd: u8, d: &[u8]| Event::Process(forge_request(SRC, a, 0, false, cmd, d));
    let good_uuid = forge_request(SRC, a, 0, false, 0x03, &[]);
    vec![
        Event::SetUuid(U1),
        Event::SetUuid(U2),
        Event::SetUuid([0; 16]),
        rq(0x03, &[]),
        rq(0x04, &[0xFF]),
        rq(0x05, &[]),
        rq(0x06, &[0]),
        rq(0x06, &[n - 1]),
        rq(0x01, &[0, SRC]), // assigns an EID equal to the requester's address
        rq(0x02, &[]),
        Event::Process(raw_frame(SRC, a, T_PCI, &[0x14, 0x14, 1, 2, 3])),
        Event::Process(flip(good_uuid.clone(), good_uuid.len() - 1, 0x80)),
        Event::Process(forge_response(SRC, a, 0, 0x03, 0, &[0xEE; 16])),
        // the application also *encodes* with the same context between requests
        Event::Encode { call: EncCall::RespUuid { cc: 0, uuid: [0xCC; 16] }, dst: 0x31 },
        Event::Encode { call: EncCall::RespMsgTypes { cc: 0, types: vec![0xBB; 30] }, dst: 0x32 },
    ]
}

pub fn c15_filter(d: &Diff, _h: &[Event]) -> bool {
    matches!(d.aspect, Aspect::Resp(0x03) | Aspect::Resp(0x04) | Aspect::Resp(0x05) | Aspect::Probe(0x03) | Aspect::Probe(0x04) | Aspect::Probe(0x05))
}

fn cfgs15() -> Vec<Cfg> {
    vec![
        Cfg { addr: DST, msg_types: vec![], vendors: vec![(0, 0x1414, 4)] },
        Cfg { addr: DST, msg_types: vec![0x7E, 0x05, 0x00], vendors: vec![(0, 0x1414, 4), (1, 0xDEADBEEF, 9)] },
        Cfg { addr: 0x6E, msg_types: (0..30).map(|i| 0xE0u8.wrapping_add(i * 3)).collect(), vendors: vec![(1, 0x137, 1), (0, 0x8086, 2), (1, 0xFFFF_FFFF, 0xFFFF)] },
    ]
}

pub fn run_c15(run: &mut Run) {
    let thorough = run.tier.thorough();
    let depth = if thorough { 6 } else { 5 };
    run.rule = format!(
        "message-type lists of every length 0..=30 x byte lanes x 3 backgrounds; UUID byte lanes x 4 backgrounds installed then queried; alphabet of 15 events (3 set_uuid, Get UUID/Version/Message Types, 2 vendor-support queries, Set EID, Get EID, a vendor message, a wrong-PEC Get UUID, a Get UUID response carrying another UUID, 2 encoder calls on the same context) on 3 configurations (0, 3, 30 types): every sequence of length <= {} and BFS to fixpoint; oracle: reference endpoint on UUID/version/message-type answers and probes; non-trivial = histories of length >= 2 containing a state-changing event",
        depth
    );
    run.bound("stateless_depth", depth as u64);
    run.bound("alphabet", 15);
    for (k, cfg) in cfgs15().into_iter().enumerate() {
        let m = Machine { cfg: cfg.clone(), init: vec![], alphabet: sigma15(&cfg) };
        stateless(run, "C15", &format!("sigma15 on configuration {}", k), &m, depth, &c15_filter);
        let st = bfs(run, "C15", &format!("sigma15 on configuration {}", k), &m, &c15_filter, 100_000);
        record_stats(run, &format!("sigma15 on configuration {}", k), &st);
        if run.acc.viol_count == 0 {
            crosscheck_stateright(run, &format!("sigma15 on configuration {}", k), &m, &st);
        }
    }
    stateless(run, "C15", "MIXSEQ (every kind of call on one context)", &mixed_machine(), if thorough { 5 } else { 4 }, &c15_filter);
    pairseq_requests(run, "C15", &pair_cfg(), &c15_filter);
    runseq_for(run, "C15", &c15_filter);
    // message-type lists: every length x lanes
    let total: u64 = (0..=30u64).map(|l| 256 * l.max(1) * 3).sum();
    run.sweep("message-type lists of every length 0..=30 x lanes x 3 backgrounds", total, |acc, i| {
        let mut r = i;
        let mut len = 0usize;
        loop {
            let c = 256 * (len as u64).max(1) * 3;
            if r < c {
                break;
            }
            r -= c;
            len += 1;
        }
        let cfg = Cfg { addr: DST, msg_types: lane_vec(len, r, 3), vendors: vec![(0, 0x1414, 4)] };
        let m = Machine { cfg: cfg.clone(), init: vec![], alphabet: vec![Event::Process(forge_request(SRC, DST, 0, false, 0x05, &[]))] };
        let owned = Owned::new(&cfg);
        let node = m.eval(&owned, &probes(&cfg), &[0]);
        acc.evals += 1;
        acc.trans += node.calls;
        acc.validated += 1;
        acc.state(node.key);
        acc.nontrivial(Fnv::default().u64(0x15).u64(i).finish());
        let h = m.history(&[0]);
        for df in node.diffs.iter().filter(|df| c15_filter(df, &h)) {
            acc.violation(len as u64, "message-types", df.text.clone(), || json!({"prop": "C15", "check": "history", "cfg": m.cfg, "init": m.init, "history": h}));
        }
    });
    // UUID lanes
    run.sweep("UUID byte lanes x 4 backgrounds, installed (after another UUID) then queried", 256 * 16 * 4, |acc, i| {
        let cfg = Cfg::simple(DST);
        let u = lane_bytes::<16>(i, 4);
        let m = Machine {
            cfg: cfg.clone(),
            init: vec![],
            alphabet: vec![Event::SetUuid(U2), Event::SetUuid(u), Event::Process(forge_request(SRC, DST, 0, false, 0x03, &[]))],
        };
        let owned = Owned::new(&cfg);
        let node = m.eval(&owned, &probes(&cfg), &[0, 1, 2]);
        acc.evals += 1;
        acc.trans += node.calls;
        acc.validated += 1;
        acc.state(node.key);
        acc.nontrivial(Fnv::default().u64(0x150).u64(i).finish());
        let h = m.history(&[0, 1, 2]);
        for df in node.diffs.iter().filter(|df| c15_filter(df, &h)) {
            acc.violation(3, "uuid", df.text.clone(), || json!({"prop": "C15", "check": "history", "cfg": m.cfg, "init": m.init, "history": h}));
        }
    });
}

pub fn replay_c15(case: &Value) -> Result<ReplayOut, String> {
    replay_filtered(case, &c15_filter)
}

// ---------------------------------------------------------------------------
// C14
// ---------------------------------------------------------------------------

pub fn c14_filter(d: &Diff, _h: &[Event]) -> bool {
    matches!(d.aspect, Aspect::Resp(0x06) | Aspect::Probe(0x06))
}

/// Vendor-set configurations: for n = 1..=8 every PCI/IANA mix, for n = 9..=16
/// all-PCI, all-IANA, both alternations and every single odd-one-out position.
fn cfgs14() -> Vec<Cfg> {
    let mk = |fmts: Vec<u8>| -> Cfg {
        Cfg {
            addr: DST,
            msg_types: vec![0x7E],
            vendors: fmts
                .iter()
                .enumerate()
                .map(|(i, &f)| if f == 0 { (0u8, 0x1000 + i as u32, 0x0100 + i as u16) } else { (1u8, 0xA0B0_C000 + i as u32, 0x0100 + i as u16) })
                .collect(),
        }
    };
    let mut v = vec![];
    for n in 1..=8usize {
        for mask in 0..(1u32 << n) {
            v.push(mk((0..n).map(|i| ((mask >> i) & 1) as u8).collect()));
        }
    }
    for n in 9..=16usize {
        v.push(mk(vec![0; n]));
        v.push(mk(vec![1; n]));
        v.push(mk((0..n).map(|i| (i % 2) as u8).collect()));
        v.push(mk((0..n).map(|i| ((i + 1) % 2) as u8).collect()));
        for odd in 0..n {
            v.push(mk((0..n).map(|i| (i == odd) as u8).collect()));
            v.push(mk((0..n).map(|i| (i != odd) as u8).collect()));
        }
    }
    // duplicates: an earlier set equal, field for field, to the last one (or to its
    // neighbour), and all sets equal -- "arbitrary identifier values" includes repeated ones
    for n in 2..=6usize {
        for fmt in [0u8, 1] {
            for dup in 0..n - 1 {
                let mut c = mk((0..n).map(|i| if i == dup || i == n - 1 { fmt } else { 1 - fmt }).collect());
                c.vendors[dup] = c.vendors[n - 1];
                v.push(c);
                let mut c = mk(vec![fmt; n]);
                c.vendors[dup] = c.vendors[dup + 1];
                v.push(c);
            }
            let mut c = mk(vec![fmt; n]);
            for i in 0..n {
                c.vendors[i] = c.vendors[0];
            }
            v.push(c);
        }
    }
    // extreme values: a set whose identifier and numeric value are both all-zero (what a padded or
    // erased table entry looks like) or all-ones, at every index of every n <= 5, in both formats;
    // and tables made of such sets only
    for n in 1..=5usize {
        for k in 0..n {
            for (fmt, id, num) in [(0u8, 0u32, 0u16), (1, 0, 0), (0, 0xFFFF, 0xFFFF), (1, 0xFFFF_FFFF, 0xFFFF)] {
                for others in [0u8, 1] {
                    let mut c = mk(vec![others; n]);
                    c.vendors[k] = (fmt, id, num);
                    v.push(c);
                }
            }
        }
        for (fmt, id, num) in [(0u8, 0u32, 0u16), (1, 0, 0), (0, 0xFFFF, 0xFFFF)] {
            let mut c = mk(vec![fmt; n]);
            for i in 0..n {
                c.vendors[i] = (fmt, id, num);
            }
            v.push(c);
        }
    }
    v
}

fn vendor_req(sel: u8) -> Event {
    req(0x06, &[sel])
}

/// The same request from a requester that stamps every request with one instance id.
fn vendor_req_iid(sel: u8, iid: u8) -> Event {
    Event::Process(forge_request(SRC, DST, iid, false, 0x06, &[sel]))
}

/// The requester's walk: start at selector 0, follow the returned selectors.
fn walk(cfg: &Cfg, iid: u8) -> (Vec<u8>, Option<String>, u64) {
    let owned = Owned::new(cfg);
    let mut ctx = owned.ctx();
    let r = RefEndpoint::new(cfg);
    let n = cfg.vendors.len();
    let mut visited = vec![];
    let mut sel = 0u8;
    let mut calls = 0;
    loop {
        if visited.len() > n + 2 {
            return (visited.clone(), Some(format!("the walk does not stop: visited {:?}", visited)), calls);
        }
        if sel as usize >= n {
            return (visited.clone(), Some(format!("the walk was sent to selector {:#04x} which is not a configured set (visited {:?})", sel, visited)), calls);
        }
        visited.push(sel);
        let obs = subject::apply(&mut ctx, &vendor_req_iid(sel, iid));
        calls += 1;
        let StepOut::Proc { out, resp, .. } = &obs.out else { return (visited, Some("harness: not a process step".into()), calls) };
        let Some(len) = out.resp_len else {
            return (visited.clone(), Some(format!("selector {} was not answered: {:?}", sel, out.dec)), calls);
        };
        if len < 14 || resp[11] != 0 {
            return (visited, Some(format!("selector {} answered with {}", sel, hex(&resp[..len.min(resp.len())]))), calls);
        }
        // the set that came back must be the sel-th configured one
        let field = r.vendor_field(sel as usize);
        if resp[13..len - 1] != field[..] {
            return (visited, Some(format!("selector {} returned vendor field {}, configured set is {}", sel, hex(&resp[13..len - 1]), hex(&field))), calls);
        }
        let next = resp[12];
        if next == 0xFF {
            break;
        }
        sel = next;
    }
    let want: Vec<u8> = (0..n as u8).collect();
    let err = (visited != want).then(|| format!("the walk visited selectors {:?}, expected {:?}", visited, want));
    (visited, err, calls)
}

pub fn run_c14(run: &mut Run) {
    run.rule = "configurations: every PCI/IANA mix for n=1..=8 (510), structured mixes for n=9..=16 (288), identifiers distinct per index; per configuration every selector on a fresh context, every ordered pair, every sequence of length <= 4 (n<=4), every permutation (n<=6), the requester's walk from selector 0; value breadth on n in {1,2}: all 65 536 PCI ids, IANA byte lanes, all 65 536 numeric values; oracle: reference endpoint on the vendor-support response and probes; non-trivial = sequences of length >= 2".into();
    run.bound("configurations", cfgs14().len() as u64);
    run.assume("selectors >= n are C10's (K-C10-PROC-VDM-SEL), not C14's");
    let cfgs = cfgs14();
    // (a) per configuration: singles, ordered pairs, walk
    let offs: Vec<u64> = {
        let mut o = vec![0u64];
        for c in &cfgs {
            let n = c.vendors.len() as u64;
            o.push(o.last().unwrap() + n + n * n + 1);
        }
        o
    };
    let total = *offs.last().unwrap();
    run.sweep("per configuration: every selector, every ordered pair, the walk; all requests with instance id 0, and again with a constant instance id 5", total * 2, |acc, i| {
        let iid = if i >= total { 5u8 } else { 0 };
        let i = i % total;
        let k = match offs.binary_search(&i) {
            Ok(k) => k,
            Err(k) => k - 1,
        };
        let cfg = &cfgs[k];
        let n = cfg.vendors.len() as u64;
        let r = i - offs[k];
        acc.evals += 1;
        acc.validated += 1;
        if r == n + n * n {
            let (visited, err, calls) = walk(cfg, iid);
            acc.trans += calls;
            acc.outcome2("walk", if err.is_none() { "complete" } else { "broken" });
            acc.state(Fnv::default().u64(0x14).u64(fp(cfg)).bytes(&visited).finish());
            if k % 97 == 5 {
                acc.sample(|| json!({"configuration_formats": cfg.vendors.iter().map(|v| v.0).collect::<Vec<_>>(), "walk_visited": visited}));
            }
            if let Some(e) = err {
                acc.violation(n, "walk", e, || json!({"prop": "C14", "check": "walk", "cfg": cfg, "iid": iid}));
            }
            return;
        }
        let seq: Vec<u8> = if r < n { vec![r as u8] } else { vec![((r - n) / n) as u8, ((r - n) % n) as u8] };
        let m = Machine { cfg: cfg.clone(), init: vec![], alphabet: seq.iter().map(|&s| vendor_req_iid(s, iid)).collect() };
        let idx: Vec<u8> = (0..seq.len() as u8).collect();
        let owned = Owned::new(cfg);
        let node = m.eval(&owned, &probes(cfg), &idx);
        acc.trans += node.calls;
        acc.state(node.key ^ iid as u64);
        if seq.len() >= 2 {
            acc.nontrivial(Fnv::default().u64(0x140).u64(i).u64(iid as u64).finish());
        }
        acc.outcome2("selector-sequence", if node.diffs.is_empty() { "agrees" } else { "differs" });
        let h = m.history(&idx);
        for df in node.diffs.iter().filter(|df| c14_filter(df, &h)) {
            acc.violation(seq.len() as u64, "selector", df.text.clone(), || json!({"prop": "C14", "check": "history", "cfg": m.cfg, "init": m.init, "history": h}));
        }
    });
    // (b) n <= 4: every sequence of length <= 4; n <= 6: every permutation (as sequences of length n)
    for cfg in cfgs.iter().filter(|c| c.vendors.len() <= 4 && c.vendors.len() >= 2) {
        let n = cfg.vendors.len() as u8;
        let m = Machine { cfg: cfg.clone(), init: vec![], alphabet: (0..n).map(vendor_req).collect() };
        stateless(run, "C14", &format!("selector sequences, formats {:?}", cfg.vendors.iter().map(|v| v.0).collect::<Vec<_>>()), &m, 4, &c14_filter);
    }
    let perm_cfgs: Vec<&Cfg> = cfgs.iter().filter(|c| (5..=6).contains(&c.vendors.len())).collect();
    let fact = |n: u64| (1..=n).product::<u64>();
    let poffs: Vec<u64> = {
        let mut o = vec![0u64];
        for c in &perm_cfgs {
            o.push(o.last().unwrap() + fact(c.vendors.len() as u64));
        }
        o
    };
    run.sweep("every permutation of the selectors, n in {5,6}, every format mix", *poffs.last().unwrap(), |acc, i| {
        let k = match poffs.binary_search(&i) {
            Ok(k) => k,
            Err(k) => k - 1,
        };
        let cfg = perm_cfgs[k];
        let n = cfg.vendors.len();
        // factorial number system -> permutation
        let mut r = i - poffs[k];
        let mut pool: Vec<u8> = (0..n as u8).collect();
        let mut perm = vec![];
        for j in (1..=n as u64).rev() {
            let f = fact(j - 1);
            perm.push(pool.remove((r / f) as usize));
            r %= f;
        }
        let m = Machine { cfg: cfg.clone(), init: vec![], alphabet: perm.iter().map(|&s| vendor_req(s)).collect() };
        let owned = Owned::new(cfg);
        let pk = probes(cfg);
        acc.evals += 1;
        acc.validated += 1;
        // every prefix is checked (the permutation is walked step by step)
        for l in 1..=n {
            let idx: Vec<u8> = (0..l as u8).collect();
            let node = m.eval(&owned, &pk, &idx);
            acc.trans += node.calls;
            if l == n {
                acc.state(node.key);
                acc.nontrivial(Fnv::default().u64(0x141).u64(i).finish());
            }
            let h = m.history(&idx);
            for df in node.diffs.iter().filter(|df| c14_filter(df, &h)) {
                acc.violation(l as u64, "permutation", df.text.clone(), || json!({"prop": "C14", "check": "history", "cfg": m.cfg, "init": m.init, "history": h}));
            }
        }
    });
    stateless(run, "C14", "MIXSEQ (every kind of call on one context)", &mixed_machine(), if run.tier.thorough() { 5 } else { 4 }, &c14_filter);
    pairseq_requests(run, "C14", &Cfg { addr: DST, msg_types: vec![0x7E], vendors: vec![(0, 0x1414, 4), (1, 0xDEADBEEF, 9), (0, 0x8086, 0), (1, 0x137, 0xFFFF)] }, &c14_filter);
    thrash_for(run, "C14", &c14_filter);
    // a response buffer of exactly the size of the answer (19 bytes for a PCI set, 21 for an IANA set),
    // after every other selector was queried first: every mix for n = 2..=5
    {
        let tight: Vec<&Cfg> = cfgs.iter().filter(|c| (2..=5).contains(&c.vendors.len())).collect();
        let toffs: Vec<u64> = {
            let mut o = vec![0u64];
            for c in &tight {
                let n = c.vendors.len() as u64;
                o.push(o.last().unwrap() + n * n);
            }
            o
        };
        run.sweep("every ordered pair of selectors, the second answered into a buffer of exactly the answer's size (n = 2..=5, every format mix)", *toffs.last().unwrap(), |acc, i| {
            let k = match toffs.binary_search(&i) {
                Ok(k) => k,
                Err(k) => k - 1,
            };
            let cfg = tight[k];
            let n = cfg.vendors.len() as u64;
            let r = i - toffs[k];
            let (s1, s2) = ((r / n) as u8, (r % n) as u8);
            let owned = Owned::new(cfg);
            let ctx = owned.ctx();
            let mut big = [0u8; 64];
            let _ = subject::process(&ctx, &forge_request(SRC, DST, 0, false, 0x06, &[s1]), &mut big);
            let p2 = forge_request(SRC, DST, 0, false, 0x06, &[s2]);
            let mut refe = RefEndpoint::new(cfg);
            let (_, rexp) = refe.process(&p2);
            let RespExp::Bytes { bytes, .. } = rexp else { return };
            let mut exact = vec![0xA5u8; bytes.len()];
            let out = subject::process(&ctx, &p2, &mut exact);
            acc.evals += 1;
            acc.trans += 2;
            acc.validated += 1;
            acc.nontrivial(Fnv::default().u64(0x14E).u64(i).finish());
            let bad = compare_response(&RespExp::Bytes { bytes: bytes.clone(), body_claimed: true }, out.resp_len, out.resp_len.unwrap_or(0), &exact, true);
            if let Some(d) = bad.or_else(|| out.dec.is_panic().then(|| format!("{:?}", out.dec))) {
                acc.violation(2, "tight-buffer", format!("selector {} then selector {} answered into a {}-byte buffer: {} ({:?})", s1, s2, bytes.len(), d, out.dec), || json!({"prop": "C14", "check": "tight", "cfg": cfg, "first": s1, "second": s2}));
            }
        });
    }
    // 9..=16 sets: every ordered pair of selectors with one other event in between (an assignment of
    // a new EID, a Get Endpoint ID, a UUID store, nothing)
    {
        let big: Vec<&Cfg> = cfgs.iter().filter(|c| c.vendors.len() >= 9).step_by(7).collect();
        let boffs: Vec<u64> = {
            let mut o = vec![0u64];
            for c in &big {
                let n = c.vendors.len() as u64;
                o.push(o.last().unwrap() + n * n * 4);
            }
            o
        };
        run.sweep("9..=16 sets: every ordered pair of selectors x {nothing, Set EID, Get EID, set_uuid} in between", *boffs.last().unwrap(), |acc, i| {
            let k = match boffs.binary_search(&i) {
                Ok(k) => k,
                Err(k) => k - 1,
            };
            let cfg = big[k];
            let n = cfg.vendors.len() as u64;
            let mut ix = Ix(i - boffs[k]);
            let mid = ix.take(4);
            let s2 = ix.take(n) as u8;
            let s1 = ix.take(n) as u8;
            let mut alphabet = vec![vendor_req(s1)];
            match mid {
                1 => alphabet.push(req(0x01, &[0, 0x42])),
                2 => alphabet.push(req(0x02, &[])),
                3 => alphabet.push(Event::SetUuid(U1)),
                _ => {}
            }
            alphabet.push(vendor_req(s2));
            let m = Machine { cfg: cfg.clone(), init: vec![], alphabet };
            let idx: Vec<u8> = (0..m.alphabet.len() as u8).collect();
            let owned = Owned::new(cfg);
            let node = m.eval(&owned, &probes(cfg), &idx);
            acc.evals += 1;
            acc.trans += node.calls;
            acc.validated += 1;
            acc.nontrivial(Fnv::default().u64(0x14B).u64(i).finish());
            let h = m.history(&idx);
            for df in node.diffs.iter().filter(|df| c14_filter(df, &h)) {
                acc.violation(h.len() as u64, "selector-pair", df.text.clone(), || json!({"prop": "C14", "check": "history", "cfg": m.cfg, "init": m.init, "history": h}));
            }
        });
    }
    // (c) value breadth on n in {1, 2}
    run.sweep("value breadth: all 65 536 PCI ids, IANA lanes x 4 backgrounds, all 65 536 numeric values, n in {1,2}", (65536 + 256 * 4 * 4 + 65536) * 2, |acc, i| {
        let two = i % 2 == 1;
        let j = i / 2;
        let set: (u8, u32, u16) = if j < 65536 {
            (0, 0xABCD_0000 | j as u32, 0x0102)
        } else if j < 65536 + 4096 {
            (1, u32::from_be_bytes(lane_bytes::<4>(j - 65536, 4)), 0x0102)
        } else {
            (((j >> 3) & 1) as u8, 0x1234_5678, (j - 65536 - 4096) as u16)
        };
        let vendors = if two { vec![(1, 0x0BAD_F00D, 0x7777), set] } else { vec![set] };
        let cfg = Cfg { addr: DST, msg_types: vec![], vendors };
        let sel = if two { 1 } else { 0 };
        let m = Machine { cfg: cfg.clone(), init: vec![], alphabet: vec![vendor_req(sel)] };
        let owned = Owned::new(&cfg);
        let node = m.eval(&owned, &probes(&cfg), &[0]);
        acc.evals += 1;
        acc.trans += node.calls;
        acc.validated += 1;
        acc.state(node.key);
        acc.nontrivial(Fnv::default().u64(0x142).u64(i).finish());
        let h = m.history(&[0]);
        for df in node.diffs.iter().filter(|df| c14_filter(df, &h)) {
            acc.violation(1, "vendor-values", df.text.clone(), || json!({"prop": "C14", "check": "history", "cfg": m.cfg, "init": m.init, "history": h}));
        }
    });
}

fn replay_tight(case: &Value) -> Result<ReplayOut, String> {
    let cfg: Cfg = get_de(case, "cfg")?;
    let (s1, s2) = (get_u64(case, "first")? as u8, get_u64(case, "second")? as u8);
    let owned = Owned::new(&cfg);
    let ctx = owned.ctx();
    let mut big = [0u8; 64];
    let _ = subject::process(&ctx, &forge_request(SRC, DST, 0, false, 0x06, &[s1]), &mut big);
    let p2 = forge_request(SRC, DST, 0, false, 0x06, &[s2]);
    let mut refe = RefEndpoint::new(&cfg);
    let (_, rexp) = refe.process(&p2);
    let RespExp::Bytes { bytes, .. } = rexp else { return Err("selector out of range".into()) };
    let mut exact = vec![0xA5u8; bytes.len()];
    let out = subject::process(&ctx, &p2, &mut exact);
    let bad = compare_response(&RespExp::Bytes { bytes, body_claimed: true }, out.resp_len, out.resp_len.unwrap_or(0), &exact, true);
    Ok(ReplayOut { violations: bad.into_iter().collect(), observed: format!("{:?} {}", out, hex(&exact)) })
}

pub fn replay_c14(case: &Value) -> Result<ReplayOut, String> {
    if get_str(case, "check")? == "tight" {
        return replay_tight(case);
    }
    if get_str(case, "check")? == "walk" {
        let cfg: Cfg = get_de(case, "cfg")?;
        let (visited, err, _) = walk(&cfg, case["iid"].as_u64().unwrap_or(0) as u8);
        return Ok(ReplayOut { violations: err.into_iter().collect(), observed: format!("{:?}", visited) });
    }
    replay_filtered(case, &c14_filter)
}

// ---------------------------------------------------------------------------
// C12
// ---------------------------------------------------------------------------

pub const K_IID: &str = "K-C12-IID";

/// The answerable requests: (command, data)
fn answerable(k: u64, param: u8) -> (u8, Vec<u8>) {
    match k {
        0 => (0x01, vec![0, param]),
        1 => (0x01, vec![1, param]),
        2 => (0x01, vec![3, param]),
        3 => (0x02, vec![]),
        4 => (0x03, vec![]),
        5 => (0x04, vec![param]),
        6 => (0x05, vec![]),
        _ => (0x06, vec![param]),
    }
}

struct J12 {
    viols: Vec<String>,
    known: bool,
    observed: String,
    answered: bool,
}

/// Judge the response to `pkt` (requester = pkt[6] = pkt[3]>>1) on context
/// `spec`, by the reference framing rules only.
fn judge_c12(spec: &CtxSpec, pkt: &[u8]) -> J12 {
    let owned = Owned::new(&spec.cfg);
    let mut ctx = build(&owned, &spec.history);
    let obs = subject::apply(&mut ctx, &Event::Process(pkt.to_vec()));
    let mut j = J12 { viols: vec![], known: false, observed: String::new(), answered: false };
    let StepOut::Proc { out, extent, resp } = &obs.out else {
        j.viols.push("harness: not a process step".into());
        return j;
    };
    j.observed = format!("{:?} extent {} resp {}", out, extent, hex(resp));
    let requester = pkt[6];
    let responder = spec.cfg.addr;
    let Some(n) = out.resp_len else {
        j.viols.push(format!("an accepted request (command {:#04x}) was not answered: {:?}", pkt[10], out.dec));
        return j;
    };
    j.answered = true;
    if n < 13 || n > resp.len() {
        j.viols.push(format!("response length {} cannot hold a completion code", n));
        return j;
    }
    let o = &resp[..n];
    let mut bad = vec![];
    if o[2] as usize + 4 != n {
        bad.push(format!("reported length {} != byte count {} + 4", n, o[2]));
    }
    if *extent > n {
        bad.push(format!("buffer modified up to {} beyond the reported length {}", extent, n));
    }
    if crc8(&o[..n - 1]) != o[n - 1] {
        bad.push("wrong PEC".to_string());
    }
    if o[0] != (requester & 0x7F) << 1 {
        bad.push(format!("destination address byte {:#04x}, the requester is {:#04x}", o[0], requester));
    }
    if o[1] != 0x0F {
        bad.push(format!("command code byte {:#04x}", o[1]));
    }
    if o[3] != ((responder & 0x7F) << 1) | 1 {
        bad.push(format!("source address byte {:#04x}, the responder is {:#04x}", o[3], responder));
    }
    if o[4] != 0x01 {
        bad.push(format!("header version byte {:#04x}", o[4]));
    }
    if o[5] != requester {
        bad.push(format!("destination EID {:#04x}, the request came from {:#04x}", o[5], requester));
    }
    if o[6] != responder {
        bad.push(format!("source EID {:#04x}, the responder's address is {:#04x}", o[6], responder));
    }
    if o[7] & 0xF0 != 0xC0 {
        bad.push(format!("flags {:#04x}: not a single-packet message (SOM=EOM=1, seq 0)", o[7]));
    }
    if o[8] != 0x00 {
        bad.push(format!("message type byte {:#04x}, expected control (IC clear)", o[8]));
    }
    if o[9] & 0x80 != 0 {
        bad.push("request bit set in a response".to_string());
    }
    if o[10] != pkt[10] {
        bad.push(format!("command code {:#04x}, the request's is {:#04x}", o[10], pkt[10]));
    }
    let iid_ok = o[9] & 0x1F == pkt[9] & 0x1F;
    if !iid_ok {
        // K-C12-IID: request id non-zero, response id 0, everything else right
        if bad.is_empty() && pkt[9] & 0x1F != 0 && o[9] & 0x1F == 0 {
            j.known = true;
        } else {
            bad.push(format!("instance id {}, the request's is {}", o[9] & 0x1F, pkt[9] & 0x1F));
        }
    }
    j.viols = bad;
    j
}

fn states12() -> Vec<(u8, Vec<Event>)> {
    // (number of vendor sets selector, history); histories use the responder address placeholder DST
    vec![
        (1, vec![]),
        (2, vec![Event::Process(set_eid_req(SRC, DST, 0, 0x99))]),
        (
            16,
            vec![
                Event::SetEidReq(0x11),
                Event::SetEidResp(0x22),
                Event::SetUuid(U1),
                Event::Encode { call: EncCall::RespMsgTypes { cc: 0, types: vec![0xBB; 30] }, dst: 0x32 },
                Event::Encode { call: EncCall::ReqResolveUuid { uuid: [0xDD; 16], h: 0xDD }, dst: 0x33 },
            ],
        ),
    ]
}

fn cfg12(addr: u8, nsets: u8) -> Cfg {
    match nsets {
        1 => Cfg::simple(addr),
        2 => Cfg { addr, msg_types: vec![0x7E, 0x7F], vendors: vec![(0, 0x1414, 4), (1, 0xDEADBEEF, 9)] },
        _ => Cfg::dirty(addr),
    }
}

fn retarget(ev: &Event, addr: u8) -> Event {
    match ev {
        Event::Process(p) => {
            let mut q = p.clone();
            q[0] = (addr & 0x7F) << 1;
            q[5] = addr;
            fix_pec(&mut q);
            Event::Process(q)
        }
        e => e.clone(),
    }
}

fn spec12(addr: u8, s: usize) -> CtxSpec {
    let (nsets, hist) = states12().swap_remove(s);
    CtxSpec { cfg: cfg12(addr, nsets), history: hist.iter().map(|e| retarget(e, addr)).collect() }
}

fn one12(acc: &mut crate::engine::Acc, spec: &CtxSpec, pkt: &[u8], i: u64) {
    acc.evals += 1;
    let j = judge_c12(spec, pkt);
    acc.trans += 1 + spec.history.len() as u64;
    acc.validated += 1;
    let f = Fnv::default().bytes(pkt).u64(fp(spec)).finish();
    acc.state(f);
    if j.answered {
        acc.nontrivial(f);
    }
    acc.outcome2(
        match pkt[10] {
            0x01 => "set_eid",
            0x02 => "get_eid",
            0x03 => "get_uuid",
            0x04 => "get_version",
            0x05 => "get_msg_types",
            _ => "get_vendor",
        },
        if j.known { "known-iid" } else if j.viols.is_empty() { "well-formed" } else { "violation" },
    );
    if j.known {
        acc.known(K_IID, || json!({"request": hex(pkt), "observed": j.observed}));
    }
    if i % 300_007 == 9 {
        acc.sample(|| json!({"request": hex(pkt), "responder": spec.cfg.addr, "observed": j.observed}));
    }
    if !j.viols.is_empty() {
        acc.violation(spec.history.len() as u64, "response", format!("request {}: {}", hex(pkt), j.viols.join("; ")), || json!({"prop": "C12", "check": "response", "spec": spec, "request": hex(pkt)}));
    }
}

pub fn run_c12(run: &mut Run) {
    let thorough = run.tier.thorough();
    run.rule = "8 answerable request kinds (Set EID Set/Force/Set-Discovered, Get EID, UUID, Version, Message Types, Vendor Support) x all 128x128 (requester, responder) address pairs x 3 responder states/configurations at instance id 0; every instance id 0..=31 x D bit on address lanes; Set EID EIDs 0x01..=0xFE, version query byte 0..=255, every selector < n; (thorough: the full address x instance id cross); oracle: reference framing rules applied to the response bytes (never the library's own decoder); non-trivial = requests that were answered".into();
    run.bound("address_pairs", "128x128");
    run.bound("instance_ids", "0..=31");
    run.assume("requests name the same requester in the SMBus source address and the source EID (the property's quantifier)");
    run.assume("K-C12-IID is attributed only when the request's id is non-zero, the response's is 0 and every other checked field is right");
    // (a) all address pairs x kinds x states, iid 0
    run.sweep("8 kinds x 128x128 (requester, responder) x 3 states", 8 * 128 * 128 * 3, |acc, i| {
        let mut ix = Ix(i);
        let s = ix.take(3) as usize;
        let responder = ix.take(128) as u8;
        let requester = ix.take(128) as u8;
        let k = ix.take(8);
        let (cmd, data) = answerable(k, if k == 5 { 0xFF } else if k == 7 { 0 } else { 0x5A });
        let pkt = forge_request(requester, responder, 0, false, cmd, &data);
        one12(acc, &spec12(responder, s), &pkt, i);
    });
    // (b) instance ids x D bit x address lanes
    let lanes: Vec<(u8, u8)> = (0..128u8).map(|a| (a, 0x23)).chain((0..128u8).map(|a| (0x10, a))).collect();
    let nl = if thorough { 128 * 128 } else { lanes.len() as u64 };
    run.sweep("8 kinds x instance id 0..=31 x D bit x addresses x 2 states", 8 * 32 * 2 * nl * 2, |acc, i| {
        let mut ix = Ix(i);
        let s = [0usize, 2][ix.take(2) as usize];
        let a = ix.take(nl);
        let (requester, responder) = if thorough { ((a / 128) as u8, (a % 128) as u8) } else { lanes[a as usize] };
        let d = ix.take(2) == 1;
        let iid = ix.take(32) as u8;
        let k = ix.take(8);
        let (cmd, data) = answerable(k, if k == 5 { 0x00 } else if k == 7 { 0 } else { 0xC3 });
        let pkt = forge_request(requester, responder, iid, d, cmd, &data);
        one12(acc, &spec12(responder, s), &pkt, i);
    });
    // (b') header bytes the responder must not let steer its answer: SMBus destination, command and
    // count bytes, the destination EID, the flags byte and the control header byte of each request take
    // all 256 values (PEC re-computed), on every responder state -- among them the values that
    // coincide with the responder's own address, its assigned EID and the requester
    {
        let positions = [0usize, 1, 2, 5, 7, 9];
        run.sweep("8 kinds x 6 request header positions x 256 values x 3 states x 2 address pairs", 8 * 6 * 256 * 3 * 2, |acc, i| {
            let mut ix = Ix(i);
            let (requester, responder) = [(0x10u8, 0x23u8), (0x23, 0x10)][ix.take(2) as usize];
            let s = ix.take(3) as usize;
            let val = ix.take(256) as u8;
            let pos = positions[ix.take(6) as usize];
            let k = ix.take(8);
            let (cmd, data) = answerable(k, if k == 5 { 0xFF } else if k == 7 { 0 } else { 0x5A });
            let mut pkt = forge_request(requester, responder, 0, false, cmd, &data);
            pkt[pos] = val;
            fix_pec(&mut pkt);
            // only requests the reference accepts and answers are C12's; the rest is C09's / C10's
            let rd = ref_decode(&pkt);
            if rd.class != Class::Accept || !rd.is_request {
                acc.evals += 1;
                return;
            }
            one12(acc, &spec12(responder, s), &pkt, i);
        });
    }
    c12_histories(run);
    c12_list_lengths(run);
    c12_set_eid_pairs(run);
    // cross-kind histories: the response produced at the last step must be the reference's
    // (framing, addressing, command code; the instance id is K-C12-IID's business)
    stateless(run, "C12", "MIXSEQ (every kind of call on one context)", &mixed_machine(), if thorough { 4 } else { 3 }, &|d: &Diff, _h: &[Event]| matches!(d.aspect, Aspect::Resp(_)));
    pairseq_requests(run, "C12", &pair_cfg(), &|d: &Diff, _h: &[Event]| matches!(d.aspect, Aspect::Resp(_)));
    runseq_for(run, "C12", &|d: &Diff, _h: &[Event]| matches!(d.aspect, Aspect::Resp(_)));
    // (c) parameter breadth
    run.sweep("Set EID (3 operations) x EID 0x01..=0xFE; version query 0..=255; every selector < n for n in {1,2,16}; x 3 states x 3 address pairs", (3 * 254 + 256 + 19) * 3 * 3, |acc, i| {
        let mut ix = Ix(i);
        let (requester, responder) = [(0x10u8, 0x23u8), (0x7F, 0x00), (0x00, 0x7F)][ix.take(3) as usize];
        let s = ix.take(3) as usize;
        let r = ix.0;
        let (spec, cmd, data): (CtxSpec, u8, Vec<u8>) = if r < 3 * 254 {
            (spec12(responder, s), 0x01, vec![[0u8, 1, 3][(r / 254) as usize], (r % 254) as u8 + 1])
        } else if r < 3 * 254 + 256 {
            (spec12(responder, s), 0x04, vec![(r - 3 * 254) as u8])
        } else {
            let q = r - 3 * 254 - 256;
            let (ns, sel) = if q < 1 { (1u8, 0u8) } else if q < 3 { (2, (q - 1) as u8) } else { (16, (q - 3) as u8) };
            let (_, hist) = states12().swap_remove(s);
            (CtxSpec { cfg: cfg12(responder, ns), history: hist.iter().map(|e| retarget(e, responder)).collect() }, 0x06, vec![sel])
        };
        let pkt = forge_request(requester, responder, 0, false, cmd, &data);
        one12(acc, &spec, &pkt, i);
    });
}

/// Every message-type list length 0..=30 x every ordered pair of the 8 answerable
/// requests x neighbouring requesters (same, +1, -1, a distant one): response
/// sizes and addresses that alias under narrow arithmetic only meet here.
fn c12_list_lengths(run: &mut Run) {
    let responder = 0x23u8;
    run.sweep("message-type list length 0..=30 x ordered pairs of 8 requests x 4 requester pairs; last response judged", 31 * 64 * 4, |acc, k| {
        let mut ix = Ix(k);
        let n = ix.take(31) as usize;
        let k1 = ix.take(8);
        let k2 = ix.take(8);
        let (ra, rb) = [(0x34u8, 0x34u8), (0x34, 0x35), (0x35, 0x34), (0x34, 0x10)][ix.take(4) as usize];
        let cfg = Cfg { addr: responder, msg_types: (0..n).map(|i| 0x60 + i as u8).collect(), vendors: vec![(0, 0x1414, 4), (1, 0xDEADBEEF, 9)] };
        let mk = |kk: u64, rq: u8| {
            let (cmd, data) = answerable(kk, if kk == 5 { 0xFF } else if kk == 7 { 0 } else { 0x40 + kk as u8 });
            forge_request(rq, responder, 0, false, cmd, &data)
        };
        let spec = CtxSpec { cfg, history: vec![Event::Process(mk(k1, ra))] };
        one12(acc, &spec, &mk(k2, rb), k);
    });
}

/// Ordered pairs of Set Endpoint ID requests over requesters x EIDs: the first
/// decoded or processed, the second processed and its response judged (a
/// "same request" memo keyed on anything narrower than the bytes would answer
/// the wrong requester).  Quick: 16 requesters; thorough: all 128.
fn c12_set_eid_pairs(run: &mut Run) {
    let reqs: Vec<u8> = if run.tier.thorough() { (0..128).collect() } else { (0x30..0x40).collect() };
    let nr = reqs.len() as u64;
    let n1 = nr * 254;
    let responder = 0x23u8;
    let cfg = Cfg::simple(responder);
    run.sweep_chunked(&format!("ordered pairs of Set Endpoint ID requests over {} requesters x EIDs 0x01..=0xFE, first decoded/processed, second processed (addressing and EID of the answer)", nr), n1 * n1 * 2, |acc, lo, hi| {
        let owned = Owned::new(&cfg);
        let mk = |k: u64| -> (u8, u8, Vec<u8>) {
            let e = (k % 254) as u8 + 1;
            let r = reqs[(k / 254) as usize];
            (r, e, forge_request(r, responder, 0, false, 0x01, &[0, e]))
        };
        for i in lo..hi {
            let mode = i % 2;
            let j = i / 2;
            let (_r1, _e1, p1) = mk(j / n1);
            let (r2, e2, p2) = mk(j % n1);
            let ctx = owned.ctx();
            if mode == 0 {
                let _ = subject::decode(&ctx, &p1);
            } else {
                let mut r = [0u8; 64];
                let _ = subject::process(&ctx, &p1, &mut r);
            }
            let mut resp = [0u8; 64];
            let out = subject::process(&ctx, &p2, &mut resp);
            acc.evals += 1;
            acc.trans += 2;
            acc.validated += 1;
            let ok = match out.resp_len {
                Some(n) if n == 16 => resp[0] == r2 << 1 && resp[5] == r2 && resp[3] == (responder << 1) | 1 && resp[10] == 0x01 && resp[11] == 0 && resp[13] == e2 && crc8(&resp[..16]) == 0,
                _ => false,
            };
            if !ok {
                let hist = vec![if mode == 0 { Event::Decode(p1.clone()) } else { Event::Process(p1.clone()) }];
                let spec = CtxSpec { cfg: cfg.clone(), history: hist };
                acc.violation(2, "response", format!("after {} the request {} from {:#04x} assigning {:#04x} was answered with {}", hex(&p1), hex(&p2), r2, e2, hex(&resp[..out.resp_len.unwrap_or(0).min(64)])), || json!({"prop": "C12", "check": "response", "spec": spec, "request": hex(&p2)}));
            }
        }
        acc.outcome2("set-eid-pairs", "visited");
    });
}

/// Histories: every sequence of length <= 3 over the 8 answerable request kinds
/// from two requesters (16 events), on three configurations; the response to
/// the last request is judged.
fn c12_histories(run: &mut Run) {
    let depth = if run.tier.thorough() { 4 } else { 3 };
    let responder = 0x23u8;
    let events: Vec<Vec<u8>> = (0..16u64)
        .map(|k| {
            let requester = if k < 8 { 0x10 } else { 0x51 };
            let (cmd, data) = answerable(k % 8, if k % 8 == 5 { 0xFF } else if k % 8 == 7 { 0 } else { 0x40 + k as u8 });
            forge_request(requester, responder, 0, false, cmd, &data)
        })
        .collect();
    let a = events.len() as u64;
    let total: u64 = (1..=depth).map(|d| a.pow(d)).sum();
    run.sweep(&format!("every sequence of length <= {} over 8 answerable requests x 2 requesters, x 3 configurations; last response judged", depth), total * 3, |acc, k| {
        let ci = [1u8, 2, 16][(k % 3) as usize];
        let mut r = k / 3;
        let mut len = 1u32;
        while r >= a.pow(len) {
            r -= a.pow(len);
            len += 1;
        }
        let mut hist: Vec<Event> = vec![];
        for _ in 0..len {
            hist.push(Event::Process(events[(r % a) as usize].clone()));
            r /= a;
        }
        let Some(Event::Process(last)) = hist.pop() else { return };
        let spec = CtxSpec { cfg: cfg12(responder, ci), history: hist };
        one12(acc, &spec, &last, k);
    });
}

pub fn replay_c12(case: &Value) -> Result<ReplayOut, String> {
    if case["check"].as_str() == Some("history") {
        return replay_filtered(case, &|d: &Diff, _h: &[Event]| matches!(d.aspect, Aspect::Resp(_)));
    }
    let spec: CtxSpec = get_de(case, "spec")?;
    let pkt = get_hex(case, "request")?;
    let j = judge_c12(&spec, &pkt);
    Ok(ReplayOut { violations: j.viols, observed: j.observed })
}
