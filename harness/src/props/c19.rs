//! C19 — wire code points map to the right enumeration values.
use super::*;
use crate::engine::ReplayOut;
use crate::refmodel::*;
use crate::subject::{cc_u8, mt_u8};
use crate::trap::trap;
use libmctp::base_packet::MessageType;
use libmctp::control_packet::{CommandCode, CompletionCode};
use serde_json::{json, Value};

/// (observed text, violation)
pub fn judge(which: &str, b: u8) -> (String, Option<String>) {
    match which {
        "command_code" => match trap(|| CommandCode::from(b) as u8) {
            Ok(v) => {
                let e = ref_command_code(b);
                (format!("{:#04x}", v), (v != e).then(|| format!("CommandCode::from({:#04x}) has value {:#04x}, expected {:#04x}", b, v, e)))
            }
            Err(m) => (format!("panic {}", m), Some(format!("CommandCode::from({:#04x}) panicked: {}", b, m))),
        },
        "message_type" => match trap(|| mt_u8(&MessageType::from(b))) {
            Ok(v) => {
                let e = ref_message_type(b);
                (format!("{:#04x}", v), (v != e).then(|| format!("MessageType::from({:#04x}) has value {:#04x}, expected {:#04x}", b, v, e)))
            }
            Err(m) => (format!("panic {}", m), Some(format!("MessageType::from({:#04x}) panicked: {}", b, m))),
        },
        "completion_code" => match trap(|| cc_u8(&CompletionCode::from(b))) {
            Ok(v) => (format!("{:#04x}", v), (v != b).then(|| format!("CompletionCode::from({}) has value {}", b, v))),
            Err(m) => (format!("panic {}", m), Some(format!("CompletionCode::from({}) panicked: {}", b, m))),
        },
        // discriminants of the variants themselves (the other direction)
        "discriminants" => {
            let cmds = [
                (CommandCode::Reserved as u8, 0x00), (CommandCode::SetEndpointID as u8, 0x01), (CommandCode::GetEndpointID as u8, 0x02),
                (CommandCode::GetEndpointUUID as u8, 0x03), (CommandCode::GetMCTPVersionSupport as u8, 0x04),
                (CommandCode::GetMessageTypeSupport as u8, 0x05), (CommandCode::GetVendorDefinedMessageSupport as u8, 0x06),
                (CommandCode::ResolveEndpointID as u8, 0x07), (CommandCode::AllocateEndpointIDs as u8, 0x08),
                (CommandCode::RoutingInformationUpdate as u8, 0x09), (CommandCode::GetRoutingTableEntries as u8, 0x0A),
                (CommandCode::PrepareForEndpointDiscovery as u8, 0x0B), (CommandCode::EndpointDiscovery as u8, 0x0C),
                (CommandCode::DiscoveryNotify as u8, 0x0D), (CommandCode::GetNetworkID as u8, 0x0E), (CommandCode::QueryHop as u8, 0x0F),
                (CommandCode::ResolveUUID as u8, 0x10), (CommandCode::QueryRateLimit as u8, 0x11), (CommandCode::RequestTXRateLimit as u8, 0x12),
                (CommandCode::UpdateRateLimit as u8, 0x13), (CommandCode::QuerySupportedInterfaces as u8, 0x14), (CommandCode::Unknown as u8, 0xFF),
            ];
            let mts = [
                (MessageType::MCtpControl as u8, 0x00), (MessageType::SpdmOverMctp as u8, 0x05), (MessageType::SecuredMessages as u8, 0x06),
                (MessageType::VendorDefinedPCI as u8, 0x7E), (MessageType::VendorDefinedIANA as u8, 0x7F), (MessageType::Invalid as u8, 0xFF),
            ];
            let ccs = [
                (CompletionCode::Success as u8, 0), (CompletionCode::Error as u8, 1), (CompletionCode::ErrorInvalidData as u8, 2),
                (CompletionCode::ErrorInvalidLength as u8, 3), (CompletionCode::ErrorNotReady as u8, 4), (CompletionCode::ErrorUnsupportedCmd as u8, 5),
            ];
            let mut bad = vec![];
            for (i, (got, exp)) in cmds.iter().chain(mts.iter()).chain(ccs.iter()).enumerate() {
                if got != exp {
                    bad.push(format!("variant #{} has discriminant {:#04x}, DSP0236 says {:#04x}", i, got, exp));
                }
            }
            (format!("{} discriminants", cmds.len() + mts.len() + ccs.len()), if bad.is_empty() { None } else { Some(bad.join("; ")) })
        }
        _ => ("?".into(), Some(format!("unknown check {}", which))),
    }
}

pub fn run(run: &mut Run) {
    run.rule = "every byte 0..=255 through CommandCode::from and MessageType::from, 0..=5 through CompletionCode::from, plus every variant's discriminant; non-trivial = defined code points".into();
    run.bound("command_code_bytes", 256);
    run.bound("message_type_bytes", 256);
    run.bound("completion_codes", 6);
    run.assume("reference table: DSP0236 Table 12 command codes 0x00-0x14, DSP0239 message types 0x00,0x05,0x06,0x7E,0x7F");
    for (which, n) in [("command_code", 256u64), ("message_type", 256), ("completion_code", 6), ("discriminants", 1)] {
        run.seq(which, n, |acc| {
            for b in 0..n {
                let b8 = b as u8;
                acc.evals += 1;
                acc.trans += 1;
                let (obs, v) = judge(which, b8);
                acc.validated += 1;
                acc.state(crate::engine::fp_bytes(which.len() as u64 * 7 + which.as_bytes()[0] as u64, &[b8]));
                let defined = match which {
                    "command_code" => ref_command_code(b8) == b8 && b8 != 0xFF,
                    "message_type" => ref_message_type(b8) == b8 && b8 != 0xFF,
                    _ => true,
                };
                if defined {
                    acc.nontrivial(crate::engine::fp_bytes(which.as_bytes()[2] as u64, &[b8]));
                }
                acc.outcome(&format!("{}.{}", which, if defined { "defined" } else { "undefined" }));
                if b % 41 == 3 {
                    acc.sample(|| json!({"check": which, "byte": b8, "observed": obs}));
                }
                if let Some(d) = v {
                    acc.violation(0, which, d, || json!({"prop": "C19", "check": which, "byte": b8}));
                }
            }
            n
        });
    }
    // A conversion is a function of its byte alone: every ordered pair of conversions (the first
    // made, the second judged), for both total conversions and across them -- a sweep in ascending
    // order never converts b right after a.
    run.bound("ordered_conversion_pairs", 4 * 65536u64);
    for (first_kind, which) in [("command_code", "command_code"), ("message_type", "message_type"), ("message_type", "command_code"), ("command_code", "message_type")] {
        run.seq(&format!("every ordered pair: {}::from(a) then {}::from(b) judged", first_kind, which), 65536, |acc| {
            for a in 0..=255u8 {
                for b in 0..=255u8 {
                    let _ = judge(first_kind, a);
                    let (_, v) = judge(which, b);
                    acc.evals += 1;
                    acc.trans += 2;
                    acc.validated += 1;
                    if let Some(d) = v {
                        if first_kind == which {
                            acc.violation(1, "pair", format!("after {}::from({:#04x}): {}", first_kind, a, d), || json!({"prop": "C19", "check": which, "first": a, "byte": b}));
                        } else {
                            acc.violation(1, "pair", format!("after {}::from({:#04x}): {}", first_kind, a, d), || json!({"prop": "C19", "check": which, "byte": b}));
                        }
                    }
                }
                acc.state(crate::engine::fp_bytes(0x19A + which.len() as u64 + 3 * first_kind.len() as u64, &[a]));
            }
            acc.outcome(&format!("pairs.{}-then-{}", first_kind, which));
            65536
        });
    }
}

pub fn replay(case: &Value) -> Result<ReplayOut, String> {
    if let Some(first) = case["first"].as_u64() {
        // an ordered pair: the first conversion is made, the second judged
        let which = get_str(case, "check")?.to_string();
        let _ = judge(&which, first as u8);
        let b = get_u64(case, "byte")? as u8;
        let (observed, v) = judge(&which, b);
        return Ok(ReplayOut { violations: v.into_iter().collect(), observed });
    }
    let which = get_str(case, "check")?.to_string();
    let b = get_u64(case, "byte")? as u8;
    let (observed, v) = judge(&which, b);
    Ok(ReplayOut { violations: v.into_iter().collect(), observed })
}
