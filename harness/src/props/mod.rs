//! One module per property: the enumerated space and the oracle projection.
use crate::engine::{Replayer, Run};

pub mod c01;
pub mod common;
pub mod dec;
pub mod decprops;
pub mod stateprops;
pub mod enc;
pub mod encprops;
pub mod c17;
pub mod c18;
pub mod c19;

pub type Runner = fn(&mut Run);

pub const ALL: &[(&str, Runner, Replayer)] = &[
    ("C01", c01::run, c01::replay),
    ("C02", decprops::run_c02, decprops::replay_c02),
    ("C03", encprops::run_c03, encprops::replay_c03),
    ("C04", encprops::run_c04, encprops::replay_c04),
    ("C05", encprops::run_c05, encprops::replay_c05),
    ("C06", encprops::run_c06, encprops::replay_c06),
    ("C07", encprops::run_c07, encprops::replay_c07),
    ("C08", encprops::run_c08, encprops::replay_c08),
    ("C09", decprops::run_c09, decprops::replay_c09),
    ("C10", decprops::run_c10, decprops::replay_c10),
    ("C11", decprops::run_c11, decprops::replay_c11),
    ("C12", stateprops::run_c12, stateprops::replay_c12),
    ("C13", stateprops::run_c13, stateprops::replay_c13),
    ("C14", stateprops::run_c14, stateprops::replay_c14),
    ("C15", stateprops::run_c15, stateprops::replay_c15),
    ("C16", encprops::run_c16, encprops::replay_c16),
    ("C17", c17::run, c17::replay),
    ("C18", c18::run, c18::replay),
    ("C19", c19::run, c19::replay),
];

/// Helper: read a u64 field of a replay case.
pub fn get_u64(v: &serde_json::Value, k: &str) -> Result<u64, String> {
    v[k].as_u64().ok_or_else(|| format!("replay case lacks integer field {:?}", k))
}
pub fn get_str<'a>(v: &'a serde_json::Value, k: &str) -> Result<&'a str, String> {
    v[k].as_str().ok_or_else(|| format!("replay case lacks string field {:?}", k))
}
pub fn get_hex(v: &serde_json::Value, k: &str) -> Result<Vec<u8>, String> {
    crate::types::unhex(get_str(v, k)?)
}
pub fn get_de<T: serde::de::DeserializeOwned>(v: &serde_json::Value, k: &str) -> Result<T, String> {
    serde_json::from_value(v[k].clone()).map_err(|e| format!("replay case field {:?}: {}", k, e))
}
