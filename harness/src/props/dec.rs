//! Received byte strings for C02, C09, C10, C11: base shapes and the t-way
//! deviation spaces around them (DESIGN §2.2).  Everything here is built from
//! the reference model only, so the spaces do not depend on the subject.
use super::enc::basic_calls;
use crate::engine::background;
use crate::refmodel::*;
use crate::types::*;

#[derive(Clone, Debug)]
pub struct Shape {
    pub bytes: Vec<u8>,
    /// member of the small set used for t >= 2
    pub core: bool,
}

fn data(len: usize, salt: u8) -> Vec<u8> {
    (0..len).map(|i| (i as u8).wrapping_mul(7).wrapping_add(salt)).collect()
}

pub const SRC: u8 = 0x10;
pub const DST: u8 = 0x23;

/// Every base shape.  Known-panic command codes only appear with data lengths
/// 0 and 2 (their classes are walked along the defining field, not crossed
/// with every length).
pub fn shapes() -> Vec<Shape> {
    let mut v = vec![];
    // (a) what the library's own encoders produce (per the reference)
    for (k, c) in basic_calls().iter().enumerate() {
        if let EncExp::Bytes(b) = enc_expect(c, SRC, DST, 0x42) {
            v.push(Shape { bytes: b, core: k % 2 == 0 });
        }
    }
    // (b) forged control traffic for command codes 0x00-0x15, 0x7F, 0xFF
    let cmds: Vec<u8> = (0x00..=0x15).chain([0x7F, 0xFF]).collect();
    let lens: Vec<usize> = (0..=20).chain([64]).chain(243..=248).collect();
    for &cmd in &cmds {
        let ls: Vec<usize> = if req_unimpl(cmd) { vec![0, 2] } else { lens.clone() };
        for &l in &ls {
            let core = !req_unimpl(cmd) && (Some(l) == req_fixed_len(cmd) || (req_fixed_len(cmd).is_none() && l == 0) || l == 4);
            if 11 + l + 1 <= MAX_PACKET + 1 {
                let mut body = vec![0x80 | 0x05, cmd];
                body.extend(data(l, 0x31));
                // lengths 247/248 exceed the frame: build by hand so that oversize inputs exist too
                v.push(Shape { bytes: raw_frame(SRC, DST, T_CONTROL, &body), core });
            }
        }
        let ls: Vec<usize> = if resp_unimpl(cmd) { vec![0, 2] } else { lens.clone() };
        for &l in &ls {
            for cc in [0u8, 3] {
                let core = !resp_unimpl(cmd) && cc == 0 && (Some(l) == resp_fixed_len(cmd) || (resp_fixed_len(cmd).is_none() && l == 1) || l == 4);
                let mut body = vec![0x05, cmd, cc];
                body.extend(data(l, 0x57));
                v.push(Shape { bytes: raw_frame(SRC, DST, T_CONTROL, &body), core: core || (cc == 3 && l == 0 && cmd == 0x02) });
            }
        }
    }
    // (c) vendor / SPDM / secured bodies
    for t in [T_PCI, T_IANA, T_SPDM, T_SECURED] {
        for l in [0usize, 1, 2, 16, 249] {
            v.push(Shape { bytes: raw_frame(SRC, DST, t, &data(l, t)), core: l == 2 });
        }
    }
    v
}

/// `frame` without the size limit (oversize inputs are legitimate *inputs*).
pub fn raw_frame(src: u8, dst: u8, t: u8, body: &[u8]) -> Vec<u8> {
    let total = 9 + body.len() + 1;
    let mut out = vec![(dst & 0x7F) << 1, SMBUS_CMD, (total.wrapping_sub(4)) as u8, ((src & 0x7F) << 1) | 1, 0x01, dst, src, 0xC8, t & 0x7F];
    out.extend_from_slice(body);
    let p = crc8(&out);
    out.push(p);
    out
}

/// A finite, indexable space of received byte strings.
pub struct DevSpace {
    pub name: String,
    shapes: Vec<Vec<u8>>,
    /// per shape: list of position tuples (t positions each)
    tuples: Vec<Vec<Vec<usize>>>,
    t: usize,
    /// prefix sums of cases per shape
    offs: Vec<u64>,
}

impl DevSpace {
    pub fn n(&self) -> u64 {
        *self.offs.last().unwrap_or(&0)
    }
    fn build(name: &str, shapes: Vec<Vec<u8>>, tuples: Vec<Vec<Vec<usize>>>, t: usize) -> DevSpace {
        let per = 2 * 256u64.pow(t as u32);
        let mut offs = vec![0u64];
        for tp in &tuples {
            offs.push(offs.last().unwrap() + tp.len() as u64 * per);
        }
        DevSpace { name: name.to_string(), shapes, tuples, t, offs }
    }
    /// The undeviated base shape of case `i`.
    pub fn base_of(&self, i: u64) -> &[u8] {
        let s = match self.offs.binary_search(&i) {
            Ok(k) => k,
            Err(k) => k - 1,
        };
        &self.shapes[s.min(self.shapes.len() - 1)]
    }
    /// Case `i`: writes the bytes into `buf`; returns (number of deviating
    /// fields incl. a stale PEC, the PEC was re-computed).
    pub fn get(&self, i: u64, buf: &mut Vec<u8>) -> (u64, bool) {
        let s = match self.offs.binary_search(&i) {
            Ok(k) => k,
            Err(k) => k - 1,
        };
        let mut r = i - self.offs[s];
        let fix = r % 2 == 1;
        r /= 2;
        let mut vals = [0u8; 4];
        for v in vals.iter_mut().take(self.t) {
            *v = (r % 256) as u8;
            r /= 256;
        }
        let tuple = &self.tuples[s][r as usize];
        buf.clear();
        buf.extend_from_slice(&self.shapes[s]);
        let mut changed = 0;
        for (k, &p) in tuple.iter().enumerate() {
            if buf[p] != vals[k] {
                changed += 1;
            }
            buf[p] = vals[k];
        }
        if fix {
            fix_pec(buf);
        }
        (changed, fix)
    }
}

/// t = 1: every position of every shape x 256 values x {PEC stale, PEC re-computed}.
pub fn space_t1() -> DevSpace {
    let sh = shapes();
    let tuples = sh.iter().map(|s| (0..s.bytes.len()).map(|p| vec![p]).collect()).collect();
    DevSpace::build("t=1: every position of every base shape x 256 values x PEC stale/re-computed", sh.into_iter().map(|s| s.bytes).collect(), tuples, 1)
}

/// t = 1 restricted to the core shapes.
pub fn space_t1_core() -> DevSpace {
    let sh: Vec<Shape> = shapes().into_iter().filter(|s| s.core).collect();
    let tuples = sh.iter().map(|s| (0..s.bytes.len()).map(|p| vec![p]).collect()).collect();
    DevSpace::build("t=1: every position of every core shape x 256 values x PEC stale/re-computed", sh.into_iter().map(|s| s.bytes).collect(), tuples, 1)
}

fn sym_positions(len: usize, set: &[isize]) -> Vec<usize> {
    // negative = from the end (-1 = PEC, -2 = last data byte)
    let mut v: Vec<usize> = set
        .iter()
        .filter_map(|&p| if p >= 0 { Some(p as usize) } else { len.checked_sub((-p) as usize) })
        .filter(|&p| p < len)
        .collect();
    v.sort();
    v.dedup();
    v
}

/// t = 2 over the semantic positions {4, 8, 9, 10, 11, PEC} (quick) or all of
/// {0..=15, last data byte, PEC} (thorough), on the core shapes.
pub fn space_t2(thorough: bool) -> DevSpace {
    let set: Vec<isize> = if thorough { (0..=15).chain([-2, -1]).collect() } else { vec![4, 8, 9, 10, 11, -1] };
    let sh: Vec<Shape> = shapes().into_iter().filter(|s| s.core).collect();
    let tuples = sh
        .iter()
        .map(|s| {
            let ps = sym_positions(s.bytes.len(), &set);
            let mut t = vec![];
            for a in 0..ps.len() {
                for b in a + 1..ps.len() {
                    t.push(vec![ps[a], ps[b]]);
                }
            }
            t
        })
        .collect();
    DevSpace::build(
        if thorough { "t=2: all pairs of {0..=15, last data byte, PEC} x 65 536 values x PEC stale/re-computed, core shapes" } else { "t=2: all pairs of {4,8,9,10,11,PEC} x 65 536 values x PEC stale/re-computed, core shapes" },
        sh.into_iter().map(|s| s.bytes).collect(),
        tuples,
        2,
    )
}

/// t = 3 (thorough): bytes 8 x 9 x 10 on control shapes with data lengths 0..=20
/// and completion code position values from a small set (separate shapes).
pub fn space_t3() -> DevSpace {
    let mut sh = vec![];
    for l in 0..=20usize {
        for cc in [0u8, 1, 2, 3, 4, 5, 6, 7, 0x80, 0xFF] {
            let mut body = vec![0x00, 0x01, cc];
            body.extend(data(l, 0x77));
            sh.push(raw_frame(SRC, DST, T_CONTROL, &body));
        }
    }
    let tuples = sh.iter().map(|_| vec![vec![8, 9, 10]]).collect();
    DevSpace::build("t=3: bytes 8 x 9 x 10 (all 2^24) x completion-code byte in {0..=7,0x80,0xFF} x data length 0..=20 x PEC stale/re-computed", sh, tuples, 3)
}

/// The fixed-length rule on its own: every command code 0..=255, request and
/// response, every data length 0..=40, right PEC.
pub fn length_rule_case(i: u64, buf: &mut Vec<u8>) {
    let l = (i % 41) as usize;
    let resp = (i / 41) % 2 == 1;
    let cmd = (i / 82) as u8;
    let mut body = if resp { vec![0x00, cmd, 0x00] } else { vec![0x80, cmd] };
    body.extend(data(l, cmd));
    buf.clear();
    buf.extend_from_slice(&raw_frame(SRC, DST, T_CONTROL, &body));
}
pub const LENGTH_RULE_N: u64 = 256 * 2 * 41;

/// Every truncation of every base shape to every length 0..=len, raw and with
/// the last kept byte replaced by the right PEC of the prefix.
pub struct TruncSpace {
    shapes: Vec<Vec<u8>>,
    offs: Vec<u64>,
}
impl TruncSpace {
    pub fn new() -> Self {
        let shapes: Vec<Vec<u8>> = shapes().into_iter().map(|s| s.bytes).collect();
        let mut offs = vec![0u64];
        for s in &shapes {
            offs.push(offs.last().unwrap() + 2 * (s.len() as u64 + 1));
        }
        TruncSpace { shapes, offs }
    }
    pub fn n(&self) -> u64 {
        *self.offs.last().unwrap()
    }
    pub fn get(&self, i: u64, buf: &mut Vec<u8>) {
        let s = match self.offs.binary_search(&i) {
            Ok(k) => k,
            Err(k) => k - 1,
        };
        let r = i - self.offs[s];
        let keep = (r / 2) as usize;
        buf.clear();
        buf.extend_from_slice(&self.shapes[s][..keep]);
        if r % 2 == 1 {
            fix_pec(buf);
        }
    }
}

/// The selector / operation / code axes walked completely (C10):
/// returns the case for index i of axis `axis`.
pub const AXES: [(&str, u64); 6] = [
    ("Set Endpoint ID operation byte 0..=255 x EID 0..=255", 65536),
    ("Get Vendor Defined Message Support selector 0..=255", 256),
    ("Get MCTP Version Support query byte 0..=255", 256),
    ("instance id 0..=31 x D bit x rsvd bit x answerable command", 32 * 2 * 2 * 7),
    ("command code 0..=255 x request/response x completion code 0..=255", 256 * 2 * 256),
    ("source EID byte x SMBus source byte (requester naming) for Get Endpoint ID", 65536),
];

pub fn axis_case(axis: usize, i: u64, buf: &mut Vec<u8>) {
    buf.clear();
    match axis {
        0 => buf.extend_from_slice(&forge_request(SRC, DST, 0, false, 0x01, &[(i >> 8) as u8, i as u8])),
        1 => buf.extend_from_slice(&forge_request(SRC, DST, 0, false, 0x06, &[i as u8])),
        2 => buf.extend_from_slice(&forge_request(SRC, DST, 0, false, 0x04, &[i as u8])),
        3 => {
            let iid = (i % 32) as u8;
            let d = (i / 32) % 2 == 1;
            let rsvd = (i / 64) % 2 == 1;
            let k = (i / 128) as usize;
            let (cmd, dat): (u8, &[u8]) = [(0x01u8, &[0u8, 0x21][..]), (0x01, &[3, 0x21]), (0x02, &[]), (0x03, &[]), (0x04, &[0xFF]), (0x05, &[]), (0x06, &[0])][k];
            let mut p = forge_request(SRC, DST, iid, d, cmd, dat);
            if rsvd {
                p[9] |= 0x20;
                fix_pec(&mut p);
            }
            buf.extend_from_slice(&p);
        }
        4 => {
            let cc = i as u8;
            let resp = (i >> 8) % 2 == 1;
            let cmd = (i >> 9) as u8;
            if resp {
                let mut body = vec![0x00, cmd, cc];
                body.extend_from_slice(&[0x01, 0x02, 0x03]);
                buf.extend_from_slice(&raw_frame(SRC, DST, T_CONTROL, &body));
            } else {
                // for requests the "completion code" position is the first data byte
                buf.extend_from_slice(&raw_frame(SRC, DST, T_CONTROL, &[0x80, cmd, cc, 0x02]));
            }
        }
        _ => {
            let mut p = forge_request(SRC, DST, 0, false, 0x02, &[]);
            p[6] = (i >> 8) as u8;
            p[3] = i as u8;
            fix_pec(&mut p);
            buf.extend_from_slice(&p);
        }
    }
}

/// Burst corpus for C02: valid packets (reference-built) to be corrupted.
pub fn burst_corpus() -> Vec<Vec<u8>> {
    let mut v: Vec<Vec<u8>> = vec![];
    for c in basic_calls() {
        if let EncExp::Bytes(b) = enc_expect(&c, SRC, DST, 0x42) {
            v.push(b);
        }
    }
    // forged requests for each answerable command incl. Set EID with Set / Force / Set-Discovered
    for (cmd, dat) in [(0x01u8, vec![0u8, 0x33]), (0x01, vec![1, 0x44]), (0x01, vec![3, 0x55]), (0x02, vec![]), (0x03, vec![]), (0x04, vec![0xFF]), (0x05, vec![]), (0x06, vec![0])] {
        v.push(forge_request(SRC, DST, 0, false, cmd, &dat));
    }
    for t in [T_PCI, T_IANA, T_SPDM, T_SECURED] {
        for l in [0usize, 1, 16, 64, 249] {
            v.push(raw_frame(SRC, DST, t, &(0..l).map(|i| background(2, i)).collect::<Vec<u8>>()));
        }
    }
    v
}

/// Burst `k` of packet `p`: XOR an 8-bit pattern with bit 0 set (128 patterns),
/// MSB-aligned at bit offset `s`, clipped to the packet.  Returns false if the
/// clipped burst is empty.
pub fn apply_burst(p: &mut [u8], start_bit: usize, pattern: u8) -> bool {
    // pattern bit 7 lands on start_bit, bit 6 on start_bit+1, ...; patterns have bit 7 set
    let mut any = false;
    for b in 0..8 {
        if pattern & (0x80 >> b) != 0 {
            let bit = start_bit + b;
            if bit < p.len() * 8 {
                p[bit / 8] ^= 0x80 >> (bit % 8);
                any = true;
            }
        }
    }
    any
}

/// Corruptions that weaker integrity checks would miss: they preserve the byte
/// sum, the XOR of all bytes, the position-weighted (Fletcher) sum, or the
/// multiset of bytes, while the CRC-8 PEC (left as it was) no longer matches.
/// Enumerated completely for: every position i, distance d in 1..=4;
/// (+k,-k) for k in {1,2,0x10,0x80}; the same XOR mask on both bytes for masks
/// {0x01,0x80,0xFF,0x55}; (+k,-2k,+k) on (i, i+d, i+2d) for k in 1..=3, d in 1..=3;
/// transposition of bytes i and i+d.  Results that are valid packets again are dropped.
pub fn weak_corruptions(p: &[u8]) -> Vec<Vec<u8>> {
    let n = p.len();
    let mut out = vec![];
    let mut push = |q: Vec<u8>| {
        if q != p && crc8(&q) != 0 {
            out.push(q);
        }
    };
    for i in 0..n {
        for d in 1..=4usize {
            let j = i + d;
            if j >= n {
                break;
            }
            for k in [1u8, 2, 0x10, 0x80] {
                let mut q = p.to_vec();
                q[i] = q[i].wrapping_add(k);
                q[j] = q[j].wrapping_sub(k);
                push(q);
            }
            for m in [0x01u8, 0x80, 0xFF, 0x55] {
                let mut q = p.to_vec();
                q[i] ^= m;
                q[j] ^= m;
                push(q);
            }
            let mut q = p.to_vec();
            q.swap(i, j);
            push(q);
        }
        for d in 1..=3usize {
            let (j, l) = (i + d, i + 2 * d);
            if l >= n {
                break;
            }
            for k in 1..=3u8 {
                let mut q = p.to_vec();
                q[i] = q[i].wrapping_add(k);
                q[j] = q[j].wrapping_sub(2 * k);
                q[l] = q[l].wrapping_add(k);
                push(q);
            }
        }
    }
    out
}

/// Frames shaped like the neighbouring protocol on the same bus (IPMB): the first
/// three bytes sum to zero (connection-header checksum), with the MCTP command
/// code or not; an even or odd fourth byte; total length 8..=32; all-zero body
/// whose last byte makes bytes[3..] sum to zero (data checksum), or the MCTP PEC
/// instead.  DSP0237 asks MCTP to coexist with IPMB, so "IPMB filters" are a
/// recurring place for mistakes.
pub const IPMB_LIKE_N: u64 = 256 * 3 * 8 * 25 * 2;
pub fn ipmb_like(i: u64, buf: &mut Vec<u8>) {
    let mut ix = crate::engine::Ix(i);
    let pec_mode = ix.take(2);
    let len = 8 + ix.take(25) as usize;
    let b3 = [0x20u8, 0x34, 0x46, 0xFE, 0x21, 0x35, 0x47, 0x00][ix.take(8) as usize];
    let b1 = [0x0Fu8, 0x0E, 0x00][ix.take(3) as usize];
    let b0 = ix.take(256) as u8;
    buf.clear();
    buf.push(b0);
    buf.push(b1);
    buf.push(0u8.wrapping_sub(b0.wrapping_add(b1)));
    buf.push(b3);
    buf.push(0x01);
    buf.push(b0 >> 1);
    buf.push(b3 >> 1);
    buf.push(0xC8);
    while buf.len() < len {
        buf.push(0x00);
    }
    if pec_mode == 0 {
        let s = buf[3..len - 1].iter().fold(0u8, |a, b| a.wrapping_add(*b));
        buf[len - 1] = 0u8.wrapping_sub(s);
    } else {
        fix_pec(buf);
    }
}

pub fn hexs(b: &[u8]) -> String {
    hex(b)
}
