//! C03-C08 and C16: the encoder properties.  One oracle (`judge_enc`) with an
//! aspect per property; each property enumerates its own space.
use super::common::*;
use super::enc::*;
use super::*;
use crate::engine::{Acc, Ix, ReplayOut};
use crate::refmodel::*;
use crate::subject::{self, EncOut, LenOut, Owned};
#[allow(unused_imports)]
use crate::refmodel::{ref_decode, Class};
use crate::types::*;
use libmctp::smbus::MCTPSMBusContext;
use serde_json::{json, Value};

pub struct Judged {
    pub viols: Vec<(&'static str, String)>,
    pub known: Option<&'static str>,
    pub observed: String,
    /// the encoder produced a packet
    pub produced: bool,
}

fn obs_of(r: &EncRun) -> String {
    match &r.out {
        EncOut::Ok(n) => format!("Ok({}) {}", n, hex(&r.buf[..(*n).min(r.buf.len())])),
        EncOut::Refused => "Err(())".to_string(),
        EncOut::Panic(m) => format!("panic: {}", m),
    }
}

pub const K_QUERYHOP: &str = "K-C06-QUERYHOP";

thread_local! {
    static ALLOWED_IID: std::cell::Cell<Option<u8>> = const { std::cell::Cell::new(None) };
}
fn allowed_iid() -> Option<u8> {
    ALLOWED_IID.with(|c| c.get())
}
/// The instance id of the last valid control request in a history, if any.
fn last_request_iid(history: &[Event]) -> Option<u8> {
    history.iter().rev().find_map(|e| match e {
        Event::Process(p) | Event::Decode(p) => {
            let rd = ref_decode(p);
            (rd.class == Class::Accept && rd.is_control && rd.is_request).then(|| p[9] & 0x1F)
        }
        _ => None,
    })
}

/// The oracle.  `probe` is a second context (other address, configuration and
/// history) used by C04's length-probe clause.
pub fn judge_enc(
    prop: &str,
    ctx: &MCTPSMBusContext,
    probe: &MCTPSMBusContext,
    src: u8,
    eid_resp: u8,
    call: &EncCall,
    dst: u8,
    variant: u64,
    want_obs: bool,
) -> Judged {
    let exp = expect(call, src, dst, eid_resp);
    let mut j = Judged { viols: vec![], known: None, observed: String::new(), produced: false };
    let exp_len = match &exp {
        EncExp::Bytes(b) => b.len(),
        EncExp::Refuse => 0,
    };
    let too_large = matches!(exp, EncExp::Refuse) && enc_body(call, eid_resp).is_some();
    match prop {
        "C03" => {
            let r = run_enc(ctx, call, dst, exp_len.max(320) + 8, 2);
            if want_obs {
                j.observed = obs_of(&r);
            }
            if let EncOut::Ok(n) = r.out {
                j.produced = true;
                if n < 1 || n > r.buf.len() {
                    j.viols.push(("pec", format!("{} reported length {} outside the buffer", call.name(), n)));
                } else {
                    let want = crc8(&r.buf[..n - 1]);
                    if r.buf[n - 1] != want {
                        j.viols.push((
                            "pec",
                            format!(
                                "{} src={:#04x} dst={:#04x}: last byte {:#04x} is not the CRC-8 {:#04x} of the {} preceding bytes",
                                call.name(),
                                src,
                                dst,
                                r.buf[n - 1],
                                want,
                                n - 1
                            ),
                        ));
                    }
                }
            }
        }
        "C04" => {
            let r = run_enc(ctx, call, dst, 1024, 1);
            if want_obs {
                j.observed = obs_of(&r);
            }
            match &r.out {
                EncOut::Ok(n) => {
                    let n = *n;
                    j.produced = true;
                    if too_large {
                        j.viols.push((
                            "oversize-not-refused",
                            format!("{}: a message needing {} bytes was encoded (reported length {}, byte count {:#04x}) instead of refused", call.name(), 10 + enc_body(call, eid_resp).map(|b| b.1.len()).unwrap_or(0), n, r.buf[2]),
                        ));
                    } else if n < 4 || n > r.buf.len() {
                        j.viols.push(("framing", format!("{}: reported length {}", call.name(), n)));
                    } else {
                        let b = &r.buf;
                        if b[0] != (dst & 0x7F) << 1 {
                            j.viols.push(("framing", format!("{} dst={:#04x}: byte 0 is {:#04x}, expected {:#04x}", call.name(), dst, b[0], (dst & 0x7F) << 1)));
                        }
                        if b[1] != 0x0F {
                            j.viols.push(("framing", format!("{}: command code byte is {:#04x}", call.name(), b[1])));
                        }
                        if b[2] as usize + 4 != n {
                            j.viols.push(("framing", format!("{}: byte count {} + 4 != reported length {}", call.name(), b[2], n)));
                        }
                        if b[3] != ((src & 0x7F) << 1) | 1 {
                            j.viols.push(("framing", format!("{} src={:#04x}: byte 3 is {:#04x}, expected {:#04x}", call.name(), src, b[3], ((src & 0x7F) << 1) | 1)));
                        }
                        // the byte count must equal the number of bytes between it and the PEC:
                        // the PEC is the last written byte, so measure where the writing stopped
                        let r2 = run_enc(ctx, call, dst, 1024, 2);
                        let end = r.touched().map(|t| t.1).unwrap_or(0).max(r2.touched().map(|t| t.1).unwrap_or(0));
                        // with a previous packet in the buffer a rewritten byte may keep its value:
                        // then only "nothing beyond the length" can be measured
                        if (prefill_active() && end > n) || (!prefill_active() && end != n) {
                            j.viols.push(("framing", format!("{}: bytes were written up to offset {} but the reported length is {}", call.name(), end, n)));
                        }
                        for k in 3..=n.min(b.len()) {
                            for (which, c) in [("own", ctx), ("other", probe)] {
                                let got = subject::get_length(c, &b[..k]);
                                if got != LenOut::Ok(n) {
                                    j.viols.push(("probe", format!("{}: get_length on the first {} bytes ({} context) = {:?}, encoder reported {}", call.name(), k, which, got, n)));
                                    break;
                                }
                            }
                            if j.viols.len() > 3 {
                                break;
                            }
                        }
                    }
                }
                EncOut::Refused => {
                    if too_large && r.touched().is_some() {
                        j.viols.push(("oversize-not-refused", format!("{}: refused an oversize message but wrote to the buffer", call.name())));
                    }
                }
                EncOut::Panic(m) => {
                    if too_large {
                        j.viols.push(("oversize-not-refused", format!("{}: oversize message panicked instead of being refused: {}", call.name(), m)));
                    }
                }
            }
        }
        "C05" => {
            let r = run_enc(ctx, call, dst, exp_len.max(64) + 8, 2);
            if want_obs {
                j.observed = obs_of(&r);
            }
            if let (EncOut::Ok(n), EncExp::Bytes(e)) = (&r.out, &exp) {
                j.produced = true;
                if *n < 10 {
                    j.viols.push(("transport", format!("{}: packet of {} bytes has no transport header", call.name(), n)));
                } else {
                    let b = &r.buf;
                    let flags_mask = if call.is_response() { 0xF0 } else { 0xFF };
                    let names = ["version/reserved", "destination EID", "source EID", "SOM/EOM/seq/TO/tag", "IC/message type"];
                    for (k, name) in names.iter().enumerate() {
                        let i = 4 + k;
                        let m = if i == 7 { flags_mask } else { 0xFF };
                        if (b[i] ^ e[i]) & m != 0 {
                            j.viols.push((
                                "transport",
                                format!("{} src={:#04x} dst={:#04x}: byte {} ({}) is {:#04x}, expected {:#04x}", call.name(), src, dst, i, name, b[i], e[i]),
                            ));
                        }
                    }
                }
            }
        }
        "C06" | "C07" | "C08" => {
            // each of the three speaks of its own family of encoders only
            let in_family = match prop {
                "C06" => call.is_request(),
                "C07" => call.is_response(),
                _ => !call.is_request() && !call.is_response(),
            };
            if !in_family {
                return j;
            }
            let r = run_enc(ctx, call, dst, exp_len.max(64) + 8, 2);
            if want_obs {
                j.observed = obs_of(&r);
            }
            match (&r.out, &exp) {
                (EncOut::Ok(n), EncExp::Bytes(e)) => {
                    j.produced = true;
                    let n = *n;
                    if n < 10 || n > r.buf.len() {
                        j.viols.push(("body", format!("{}: reported length {}", call.name(), n)));
                    } else {
                        // C08 speaks of the type byte too; C06/C07 of the control message body
                        let start = if prop == "C08" { 8 } else { 9 };
                        let got = &r.buf[start..n - 1];
                        let want = &e[start..e.len() - 1];
                        let claimed_all = !(prop == "C07" && matches!(call_cc(call), Some(c) if c != 0));
                        // C07 speaks of the Rq, D and reserved bits, not of the instance id: a response
                        // that carries the instance id of the request the context received last is as
                        // the statement requires (whether it *should* is C12's question)
                        let mut want = want.to_vec();
                        if prop == "C07" && !got.is_empty() && !want.is_empty() {
                            if let Some(iid) = allowed_iid() {
                                if got[0] & 0xE0 == want[0] & 0xE0 && got[0] & 0x1F == iid {
                                    want[0] = got[0];
                                }
                            }
                        }
                        let want = &want[..];
                        let same = if claimed_all { got == want } else { got.len() >= 3 && got[..3] == want[..3] };
                        if !same {
                            if prop == "C06" && is_query_hop_finding(call, e, &r.buf[..n]) {
                                j.known = Some(K_QUERYHOP);
                            } else {
                                j.viols.push((
                                    "body",
                                    format!("{}: bytes {}.. are {}, expected {}", call.name(), start, hex(got), hex(want)),
                                ));
                            }
                        }
                    }
                }
                (out, EncExp::Bytes(e)) if *out != EncOut::Ok(0) && !matches!(out, EncOut::Ok(_)) => {
                    // the property gives the encoding for every accepted argument value: a call the
                    // reference encodes must not be turned away
                    j.viols.push(("not-encoded", format!("{}: valid arguments (a {}-byte packet) were not encoded: {}", call.name(), e.len(), obs_of(&r))));
                }
                (out, EncExp::Refuse) if prop == "C08" && matches!(call, EncCall::Vendor { fmt, .. } if *fmt >= 2) => {
                    // "any other vendor ID format is refused with an error"
                    if *out != EncOut::Refused {
                        j.viols.push(("format-not-refused", format!("vendor_defined with format {:?} was not refused: {}", call_fmt(call), obs_of(&r))));
                    }
                }
                _ => {}
            }
        }
        "C01" => {
            // round trip of whatever was encoded (used by ENCSEQ): decode on a fresh context of
            // another address and compare with the reference decoder's verdict on those bytes
            let r = run_enc(ctx, call, dst, 1024, 2);
            if want_obs {
                j.observed = obs_of(&r);
            }
            if let (EncOut::Ok(n), EncExp::Bytes(e)) = (&r.out, &exp) {
                j.produced = true;
                let bytes = &r.buf[..(*n).min(r.buf.len())];
                // the verdict the property promises is the one for the packet the call *should* have
                // produced (accepted, payload after the header); the decoder sees what it did produce
                let rd = ref_decode(e);
                let recv_o = Owned::new(&Cfg::bare(0x6E));
                let recv = recv_o.ctx();
                let got = subject::decode(&recv, bytes);
                let is_known = matches!(rd.class, Class::KnownPanic(_)) || matches!(call, EncCall::RespGetEid { cc: 0, .. });
                if !is_known && rd.class != Class::Unclaimed {
                    if let Some(t) = crate::explore::compare_decode(&rd, &got) {
                        j.viols.push(("round-trip", format!("{} ({} bytes: {}) handed back to the decoder: {}", call.name(), n, hex(bytes), t)));
                    }
                }
            }
        }
        "C16" => {
            // three buffers: exact length / some spare / 1024 bytes, three different poisons
            let spare = [1usize, 2, 3, 8, 64][(variant % 5) as usize];
            let base = if exp_len > 0 { exp_len } else { 400 };
            // (when a previous packet is to be left in the buffer, the first run stays pure poison so
            // that the other two are compared with an output that cannot contain stale bytes)
            let runs = [run_enc_opt(ctx, call, dst, base, 0, false), run_enc(ctx, call, dst, base + spare, 1), run_enc(ctx, call, dst, 1024, 2)];
            if want_obs {
                j.observed = runs.iter().map(obs_of).collect::<Vec<_>>().join(" | ");
            }
            match &exp {
                EncExp::Refuse => {
                    for (k, r) in runs.iter().enumerate() {
                        if r.out != EncOut::Refused {
                            j.viols.push(("not-refused", format!("{} with documented-invalid or oversize arguments: buffer #{} gave {}", call.name(), k, obs_of(r))));
                        } else if let Some((a, b)) = r.touched() {
                            j.viols.push(("refused-but-wrote", format!("{} returned Err(()) but modified bytes {}..{} of the buffer", call.name(), a, b)));
                        }
                    }
                }
                EncExp::Bytes(_) => {
                    let lens: Vec<Option<usize>> = runs
                        .iter()
                        .map(|r| match r.out {
                            EncOut::Ok(n) => Some(n),
                            _ => None,
                        })
                        .collect();
                    for (k, r) in runs.iter().enumerate() {
                        match &r.out {
                            EncOut::Panic(m) => j.viols.push(("panic", format!("{} panicked with a {}-byte buffer: {}", call.name(), r.buf.len(), m))),
                            EncOut::Refused => j.viols.push(("valid-refused", format!("{} refused arguments that are valid and fit the frame (buffer #{})", call.name(), k))),
                            EncOut::Ok(_) => {}
                        }
                    }
                    if let [Some(a), Some(b), Some(c)] = lens[..] {
                        j.produced = true;
                        if a != b || b != c {
                            j.viols.push(("length-depends-on-buffer", format!("{}: reported lengths {}, {}, {} for three buffer sizes", call.name(), a, b, c)));
                        } else if a > runs[0].buf.len() {
                            j.viols.push(("length", format!("{}: reported {} bytes for a {}-byte buffer", call.name(), a, runs[0].buf.len())));
                        } else {
                            let n = a;
                            if runs[0].buf[..n] != runs[1].buf[..n] || runs[1].buf[..n] != runs[2].buf[..n] {
                                let pos = (0..n).find(|&i| runs[0].buf[i] != runs[1].buf[i] || runs[1].buf[i] != runs[2].buf[i]).unwrap();
                                j.viols.push((
                                    "bytes-depend-on-buffer",
                                    format!("{}: byte {} of the output differs between buffers ({:#04x}/{:#04x}/{:#04x}): stale or unwritten", call.name(), pos, runs[0].buf[pos], runs[1].buf[pos], runs[2].buf[pos]),
                                ));
                            }
                            for (k, r) in runs.iter().enumerate() {
                                if let Some((_, end)) = r.touched() {
                                    if end > n {
                                        j.viols.push(("wrote-past-length", format!("{}: buffer #{} modified up to offset {} but length {} was reported", call.name(), k, end, n)));
                                    }
                                }
                            }
                        }
                    }
                }
            }
        }
        _ => j.viols.push(("machinery", format!("judge_enc: unknown property {}", prop))),
    }
    j
}

fn call_cc(call: &EncCall) -> Option<u8> {
    use EncCall::*;
    match call {
        RespSetEid { cc, .. } | RespGetEid { cc, .. } | RespUuid { cc, .. } | RespVersion { cc } | RespMsgTypes { cc, .. } | RespVendor { cc, .. } => Some(*cc),
        _ => None,
    }
}
fn call_fmt(call: &EncCall) -> Option<u8> {
    match call {
        EncCall::Vendor { fmt, .. } => Some(*fmt),
        _ => None,
    }
}

// ---------------------------------------------------------------------------
// Generic sweep: calls x addresses x contexts
// ---------------------------------------------------------------------------

#[derive(Clone)]
pub enum Addrs {
    /// all 128 x 128 (src, dst)
    All7,
    /// all 256 x 256
    All8,
    /// the single pair (0x23, 0x34), without the used-context dimension (huge arguments)
    All7Stride,
    List(Vec<(u8, u8)>),
}

impl Addrs {
    fn n(&self) -> u64 {
        match self {
            Addrs::All7 => 128 * 128,
            Addrs::All8 => 65536,
            Addrs::All7Stride => 1,
            Addrs::List(v) => v.len() as u64,
        }
    }
    fn get(&self, i: u64) -> (u8, u8) {
        match self {
            Addrs::All7Stride => (0x23, 0x34),
            Addrs::All7 => ((i / 128) as u8, (i % 128) as u8),
            Addrs::All8 => ((i / 256) as u8, i as u8),
            Addrs::List(v) => v[i as usize],
        }
    }
}

pub fn five_pairs() -> Addrs {
    Addrs::List(vec![(0x23, 0x34), (0, 0), (0x7F, 0x7F), (0x55, 0x2A), (1, 0x7E)])
}

/// Thorough tier: every 7-bit source with a fixed destination and every 7-bit
/// destination with a fixed source (256 pairs) instead of a handful of pairs.
pub fn addr_lanes() -> Addrs {
    Addrs::List((0..128u8).map(|a| (a, 0x34)).chain((0..128u8).map(|a| (0x23, a))).collect())
}

fn pairs_or_lanes(run: &Run, quick: Addrs) -> Addrs {
    if run.tier.thorough() {
        addr_lanes()
    } else {
        quick
    }
}

fn probe_spec() -> CtxSpec {
    dirty_spec(0x0F)
}

fn case_json(prop: &str, spec: &CtxSpec, call: &EncCall, dst: u8, variant: u64) -> Value {
    json!({"prop": prop, "check": "enc", "spec": spec, "call": call, "dst": dst, "variant": variant})
}

/// Which context histories an encoder sweep runs on (index into `enc_specs`).
pub fn sweep_enc(
    run: &mut Run,
    prop: &'static str,
    name: &str,
    ncalls: u64,
    call_at: &(dyn Fn(u64) -> EncCall + Sync),
    addrs: &Addrs,
    nspecs: u64,
) {
    let na = addrs.n();
    let probe_s = probe_spec();
    // "used" contexts: the same context after it has already encoded related calls
    // (address-list sweeps only; the 128x128 / 256x256 sweeps run on unused contexts)
    let nused: u64 = if matches!(addrs, Addrs::List(_)) { 3 } else { 1 };
    run.sweep_chunked(name, ncalls * na * nspecs * nused, |acc, lo, hi| {
        let probe_o = Owned::new(&probe_s.cfg);
        for i in lo..hi {
            // nothing is shared between cases: every context is rebuilt
            let probe = if prop == "C04" { build(&probe_o, &probe_s.history) } else { probe_o.ctx() };
            let mut ix = Ix(i);
            let used = ix.take(nused);
            let si = ix.take(nspecs) as usize;
            let (src, dst) = addrs.get(ix.take(na));
            let call = call_at(ix.0);
            let mut spec = enc_specs(src).swap_remove(si);
            if used > 0 {
                for p in predecessors(&call, used) {
                    spec.history.push(Event::Encode { call: p, dst: dst ^ 0x15 });
                }
            }
            let owned = Owned::new(&spec.cfg);
            let ctx = build(&owned, &spec.history);
            let eid_resp = build_ref(&spec).eid_resp;
            one(acc, prop, &ctx, &probe, &spec, src, eid_resp, &call, dst, i);
        }
    });
}

#[allow(clippy::too_many_arguments)]
pub fn one(acc: &mut Acc, prop: &'static str, ctx: &MCTPSMBusContext, probe: &MCTPSMBusContext, spec: &CtxSpec, src: u8, eid_resp: u8, call: &EncCall, dst: u8, i: u64) {
    acc.evals += 1;
    let sampled = i % 200_003 == 11;
    let j = judge_enc(prop, ctx, probe, src, eid_resp, call, dst, i, sampled);
    acc.trans += if prop == "C16" { 3 } else { 1 };
    acc.validated += 1;
    let f = Fnv::default().u64(fp(call)).u64(((src as u64) << 8) | dst as u64).u64(fp(&spec.history)).finish();
    acc.state(f);
    if j.produced {
        acc.nontrivial(f);
    }
    acc.outcome2(call.name(), if j.produced { "ok" } else { "no-packet" });
    if let Some(k) = j.known {
        acc.known(k, || json!({"call": call, "dst": dst, "src": src}));
    }
    if sampled {
        acc.sample(|| json!({"call": call, "src": src, "dst": dst, "ctx_history": spec.history, "observed": j.observed}));
    }
    for (kind, d) in j.viols {
        acc.violation(spec.history.len() as u64, kind, d, || case_json(prop, spec, call, dst, i));
    }
}

pub fn replay_enc(prop: &str, case: &Value) -> Result<ReplayOut, String> {
    if case["check"].as_str() == Some("longrun") {
        let cfg: Cfg = get_de(case, "cfg")?;
        let rc: EncCall = get_de(case, "run_call")?;
        let call: EncCall = get_de(case, "call")?;
        let rep = get_u64(case, "repeat")? as usize;
        let mut history: Vec<Event> = vec![];
        if case["pre"].as_bool().unwrap_or(false) {
            history.push(Event::SetEidReq(0xA8));
            history.push(Event::SetEidResp(0xA8));
        }
        for _ in 0..rep {
            history.push(Event::Encode { call: rc.clone(), dst: 0x34 });
        }
        if case["post"].as_bool().unwrap_or(false) {
            history.push(Event::SetEidReq(0x17));
            history.push(Event::SetEidResp(0x17));
        }
        let j = judge_encseq(prop, &cfg, &history, &call, get_u64(case, "dst")? as u8, false, true);
        return Ok(ReplayOut { violations: j.viols.into_iter().map(|(k, d)| format!("{}: {}", k, d)).collect(), observed: j.observed });
    }
    if case["check"].as_str() == Some("damaged") {
        let cfg: Cfg = get_de(case, "cfg")?;
        let call: EncCall = get_de(case, "call")?;
        let pos = get_u64(case, "pos")? as usize;
        let owned = Owned::new(&cfg);
        let ctx = owned.ctx();
        let probe = owned.ctx();
        let first = run_enc(&ctx, &call, 0x34, 1024, 2);
        let EncOut::Ok(n) = first.out else { return Err("call does not encode".into()) };
        let mut pre = first.buf[..n.min(first.buf.len())].to_vec();
        let pp = pos.min(pre.len() - 1);
        pre[pp] ^= 0xFF;
        set_prefill(Some(pre));
        let j = judge_enc(prop, &ctx, &probe, cfg.addr, 0, &call, 0x34, 0, true);
        set_prefill(None);
        return Ok(ReplayOut { violations: j.viols.into_iter().map(|(k, d)| format!("{}: {}", k, d)).collect(), observed: j.observed });
    }
    if case["check"].as_str() == Some("encseq") {
        let cfg: Cfg = get_de(case, "cfg")?;
        let history: Vec<Event> = get_de(case, "history")?;
        let call: EncCall = get_de(case, "call")?;
        let dst = get_u64(case, "dst")? as u8;
        let reuse = case["reuse"].as_bool().unwrap_or(false);
        let j = judge_encseq(prop, &cfg, &history, &call, dst, reuse, true);
        return Ok(ReplayOut { violations: j.viols.into_iter().map(|(k, d)| format!("{}: {}", k, d)).collect(), observed: j.observed });
    }
    let spec: CtxSpec = get_de(case, "spec")?;
    let call: EncCall = get_de(case, "call")?;
    let dst = get_u64(case, "dst")? as u8;
    let variant = case["variant"].as_u64().unwrap_or(0);
    let owned = Owned::new(&spec.cfg);
    let ctx = build(&owned, &spec.history);
    let ps = probe_spec();
    let po = Owned::new(&ps.cfg);
    let probe = build(&po, &ps.history);
    let eid_resp = build_ref(&spec).eid_resp;
    let j = judge_enc(prop, &ctx, &probe, spec.cfg.addr, eid_resp, &call, dst, variant, true);
    Ok(ReplayOut { violations: j.viols.into_iter().map(|(k, d)| format!("{}: {}", k, d)).collect(), observed: j.observed })
}

// ---------------------------------------------------------------------------
// ENCSEQ: explicit exploration of encoder-call sequences on one context
// ---------------------------------------------------------------------------

pub const SEQ_OWN: u8 = 0x23;

/// The alphabet: 20 encoder calls (valid, refused, lengths related by 128 and
/// 256, same vendor number in both formats, responses with every kind of
/// stored state) x 3 destinations (0x34, its top-bit twin 0xB4, its parity
/// twin 0x35), plus 5 non-encoder events (accessor stores, a processed
/// assignment, the peer's Set Endpoint ID response).
pub fn encseq_alphabet() -> Vec<Event> {
    use EncCall::*;
    let calls: Vec<EncCall> = vec![
        Vendor { fmt: 0, data: 0x1AF4, num: 1, msg: vec![0x51; 4] },
        Vendor { fmt: 0, data: 0x1AF4, num: 1, msg: vec![0x52; 4 + 128] },
        Vendor { fmt: 0, data: 0x1AF4, num: 1, msg: vec![0x53; 260] },
        Vendor { fmt: 0, data: 0xC0DE, num: 1, msg: vec![0x54; 4] },
        Vendor { fmt: 0, data: 0xC0DE, num: 1, msg: vec![0x55; 300] },
        Vendor { fmt: 1, data: 0x0000_1AF4, num: 1, msg: vec![0x56; 4] },
        ReqGetEid,
        ReqSetEid { op: 0, eid: 0x56 },
        ReqSetEid { op: 0, eid: 0x00 },
        ReqRouting { entries: vec![[0x03, 0x04, 0x10, 0x40], [0x03, 0x04, 0x14, 0x40]], via_new: false },
        ReqRouting { entries: vec![[0x01, 0x01, 0x20, 0x41]; 8], via_new: false },
        RespSetEid { cc: 0, assign: 0, alloc: 0 },
        RespSetEid { cc: 0, assign: 1, alloc: 1 },
        RespGetEid { cc: 0, ty: 0, idty: 2, fair: true },
        RespVersion { cc: 0 },
        RespMsgTypes { cc: 0, types: vec![0xBB; 30] },
        RespMsgTypes { cc: 0, types: vec![0xBB; 31] },
        RespUuid { cc: 0, uuid: [0xCC; 16] },
        Raw { half: Half::Req, writer: Writer::Spdm, hdr: None, data: vec![0x57; 4] },
        Raw { half: Half::Resp, writer: Writer::Spdm, hdr: Some(vec![0x11]), data: vec![0x58; 131] },
    ];
    let mut v = vec![];
    for c in &calls {
        for dst in [0x34u8, 0xB4, 0x35] {
            v.push(Event::Encode { call: c.clone(), dst });
        }
    }
    v.push(Event::SetEidResp(0x41));
    v.push(Event::SetEidResp(0x42));
    v.push(Event::SetEidReq(0x56));
    v.push(Event::Process(set_eid_req(0x10, SEQ_OWN, 0, 0x56)));
    // the peer at 0x34 confirms the EID we submitted with ReqSetEid{eid: 0x56}
    v.push(Event::Process(forge_response(0x34, SEQ_OWN, 5, 0x01, 0, &[0x00, 0x56, 0x00])));
    // receive-side traffic between encoder calls: a probe, a decode-only call, answered requests
    // (one with a long response), a corrupted packet, a UUID store
    let geid = forge_request(0x10, SEQ_OWN, 0, false, 0x02, &[]);
    v.push(Event::GetLength(geid[..3].to_vec()));
    v.push(Event::Decode(geid.clone()));
    v.push(Event::Process(geid.clone()));
    v.push(Event::Process(forge_request(0x10, SEQ_OWN, 0, false, 0x03, &[])));
    let mut bad = geid;
    let n = bad.len();
    bad[n - 1] ^= 0x10;
    v.push(Event::Process(bad));
    v.push(Event::SetUuid(U1));
    // a peer's Get Endpoint ID response (in the 4-data-byte form the library's decoder accepts)
    // reporting an EID that differs from the peer's address
    v.push(Event::Process(forge_response(0x34, SEQ_OWN, 5, 0x02, 0, &[0x47, 0x00, 0x00, 0x00])));
    // an assignment whose SMBus source address (0x77) does not name the same device as its source EID (0x34)
    let mut odd = set_eid_req(0x34, SEQ_OWN, 1, 0x58);
    odd[3] = (0x77 << 1) | 1;
    fix_pec(&mut odd);
    v.push(Event::Process(odd));
    v
}

/// ENCDEEP: a small alphabet explored deeper -- 5 short encoder calls of
/// different families and byte counts x 5 destinations, every sequence of length
/// <= 5 (caches with several slots, move-to-front tables, retry budgets).
pub fn encdeep_alphabet() -> Vec<Event> {
    use EncCall::*;
    let calls: Vec<EncCall> = vec![
        ReqGetEid,
        ReqGetVersion { q: 0 },
        Vendor { fmt: 0, data: 0x1AF4, num: 1, msg: vec![0x51; 4] },
        Raw { half: Half::Req, writer: Writer::Spdm, hdr: None, data: vec![0x57; 4] },
        RespVersion { cc: 0 },
    ];
    let mut v = vec![];
    for c in &calls {
        for dst in [0x10u8, 0x11, 0x12, 0x13, 0x14] {
            v.push(Event::Encode { call: c.clone(), dst });
        }
    }
    v
}

pub fn sweep_encdeep(run: &mut Run, prop: &'static str) {
    let depth: u32 = if run.tier.thorough() { 6 } else { 5 };
    let alphabet = encdeep_alphabet();
    let a = alphabet.len() as u64;
    let cfg = encseq_cfg();
    let total: u64 = (1..=depth).map(|d| a.pow(d)).sum();
    run.bound("encdeep_depth", depth as u64);
    run.sweep(&format!("ENCDEEP: every sequence of length <= {} over {} events (5 encoder calls x 5 destinations), last call judged", depth, a), total, |acc, k| {
        let mut r = k;
        let mut len = 1u32;
        while r >= a.pow(len) {
            r -= a.pow(len);
            len += 1;
        }
        let mut history = vec![];
        for _ in 0..len {
            history.push(alphabet[(r % a) as usize].clone());
            r /= a;
        }
        let Some(Event::Encode { call, dst }) = history.pop() else { return };
        acc.evals += 1;
        let j = judge_encseq(prop, &cfg, &history, &call, dst, false, false);
        acc.trans += history.len() as u64 + 1;
        acc.validated += 1;
        if k % 97 == 0 {
            acc.state(Fnv::default().u64(0xDEE9).u64(k).finish());
        }
        if j.produced && len >= 4 {
            acc.nontrivial(Fnv::default().u64(0xDEEA).u64(k).finish());
        }
        acc.outcome2("encdeep", if j.produced { "ok" } else { "no-packet" });
        for (kind, d) in j.viols {
            acc.violation(len as u64, kind, format!("after {} earlier encoder call(s): {}", len - 1, d), || json!({"prop": prop, "check": "encseq", "cfg": cfg, "history": history, "call": call, "dst": dst, "reuse": false}));
        }
    });
}

/// ENC-THRASH and encoder run-lengths: destination A used k times, then N
/// distinct destinations, then A / the first of them / a fresh one (k in 1..=3,
/// N in 0..=20, 5 call kinds); and stores/assignments repeated 1, 2, 255, 256,
/// 257 times (two runs) before each of six encoder calls.
pub fn sweep_enc_thrash(run: &mut Run, prop: &'static str) {
    let cfg = encseq_cfg();
    let kinds: Vec<EncCall> = encdeep_alphabet()
        .into_iter()
        .filter_map(|e| match e {
            Event::Encode { call, dst: 0x10 } => Some(call),
            _ => None,
        })
        .collect();
    let nk = kinds.len() as u64;
    run.sweep("ENC-THRASH: destination A x k, N distinct destinations, optionally a revisit (A / first / second of the sweep), then A / the first of them / a fresh one (k in 1..=3, N in 0..=20, 5 call kinds, same or rotating kinds)", nk * 3 * 21 * 3 * 2 * 4, |acc, i| {
        let mut ix = Ix(i);
        let rot = ix.take(2) == 1;
        let mid = ix.take(4);
        let revisit = ix.take(3);
        let n = ix.take(21) as u8;
        let k = ix.take(3) + 1;
        let call = &kinds[ix.take(nk) as usize];
        let a = 0x40u8;
        let mut history: Vec<Event> = (0..k).map(|_| Event::Encode { call: call.clone(), dst: a }).collect();
        for j in 0..n {
            let c = if rot { kinds[j as usize % kinds.len()].clone() } else { call.clone() };
            history.push(Event::Encode { call: c, dst: 0x41 + j });
        }
        match mid {
            1 => history.push(Event::Encode { call: call.clone(), dst: a }),
            2 => history.push(Event::Encode { call: call.clone(), dst: 0x41 }),
            3 => history.push(Event::Encode { call: call.clone(), dst: 0x42 }),
            _ => {}
        }
        let dst = [a, 0x41, 0x7B][revisit as usize];
        acc.evals += 1;
        let j = judge_encseq(prop, &cfg, &history, call, dst, false, false);
        acc.trans += history.len() as u64 + 1;
        acc.validated += 1;
        acc.state(Fnv::default().u64(0x7A6).u64(i).finish());
        if j.produced && n >= 2 {
            acc.nontrivial(Fnv::default().u64(0x7A7).u64(i).finish());
        }
        for (kind, d) in j.viols {
            acc.violation(history.len() as u64, kind, format!("after {} earlier encoder call(s): {}", history.len(), d), || json!({"prop": prop, "check": "encseq", "cfg": cfg, "history": history, "call": call, "dst": dst, "reuse": false}));
        }
    });
    let evs: Vec<Event> = vec![
        Event::SetEidResp(0xA8),
        Event::SetEidResp(0x17),
        Event::SetEidReq(0xA8),
        Event::Process(set_eid_req(0x10, SEQ_OWN, 0, 0xA8)),
        Event::Encode { call: EncCall::RespGetEid { cc: 0, ty: 0, idty: 0, fair: false }, dst: 0x34 },
        Event::Encode { call: EncCall::ReqGetEid, dst: 0x34 },
    ];
    let reps = [1usize, 2, 255, 256, 257];
    let lasts: Vec<EncCall> = vec![
        EncCall::RespGetEid { cc: 0, ty: 0, idty: 0, fair: false },
        EncCall::RespSetEid { cc: 0, assign: 0, alloc: 0 },
        EncCall::ReqGetEid,
        EncCall::ReqSetEid { op: 0, eid: 0xA8 },
        EncCall::Vendor { fmt: 0, data: 0x1AF4, num: 1, msg: vec![0x51; 4] },
        EncCall::RespVersion { cc: 0 },
    ];
    let ns = (evs.len() * reps.len()) as u64;
    let nl = lasts.len() as u64;
    run.sweep("encoder run-lengths: two runs over 6 events x repeat counts {1,2,255,256,257}, then each of 6 encoder calls", ns * ns * nl, |acc, i| {
        let call = &lasts[(i % nl) as usize];
        let r = i / nl;
        let mut history = vec![];
        for s in [r / ns, r % ns] {
            for _ in 0..reps[(s % reps.len() as u64) as usize] {
                history.push(evs[(s / reps.len() as u64) as usize].clone());
            }
        }
        acc.evals += 1;
        let j = judge_encseq(prop, &cfg, &history, call, 0x34, false, false);
        acc.trans += history.len() as u64 + 1;
        acc.validated += 1;
        if j.produced {
            acc.nontrivial(Fnv::default().u64(0x7A8).u64(i).finish());
        }
        for (kind, d) in j.viols {
            acc.violation(history.len() as u64, kind, format!("after {} earlier call(s)/store(s): {}", history.len(), d), || json!({"prop": prop, "check": "encseq", "cfg": cfg, "history": history, "call": call, "dst": 0x34, "reuse": false}));
        }
    });
}

/// The control-header axis of *received* traffic before an encoder call: a
/// context that has just decoded or processed a control message whose first
/// header byte (Rq, D, reserved bit, instance id) takes each of its 256 values
/// -- as a request (Get Endpoint ID, Set Endpoint ID, Get Version) when Rq is
/// set, as a Success response otherwise -- then encodes each basic call.
/// Nothing of a received header may show in what the library encodes next.
pub fn sweep_enc_after_ctrl_header(run: &mut Run, prop: &'static str) {
    let cfg = encseq_cfg();
    let basic = basic_calls();
    let nb = basic.len() as u64;
    run.sweep("received control header axis: byte 9 in 0..=255 x 3 messages x {decoded, processed}, then each basic encoder call", 256 * 3 * 2 * nb, |acc, i| {
        let mut ix = Ix(i);
        let call = &basic[ix.take(nb) as usize];
        let processed = ix.take(2) == 1;
        let which = ix.take(3);
        let b9 = ix.take(256) as u8;
        let mut pkt = if b9 & 0x80 != 0 {
            match which {
                0 => forge_request(0x10, SEQ_OWN, 0, false, 0x02, &[]),
                1 => forge_request(0x10, SEQ_OWN, 0, false, 0x01, &[0x00, 0x56]),
                _ => forge_request(0x10, SEQ_OWN, 0, false, 0x04, &[0xFF]),
            }
        } else {
            match which {
                0 => forge_response(0x34, SEQ_OWN, 0, 0x01, 0, &[0x00, 0x56, 0x00]),
                1 => forge_response(0x34, SEQ_OWN, 0, 0x04, 0, &[0x01, 0xF1, 0xF3, 0xF1, 0x00]),
                _ => forge_response(0x34, SEQ_OWN, 0, 0x03, 0, &[0xC3; 16]),
            }
        };
        pkt[9] = b9;
        fix_pec(&mut pkt);
        let history = vec![if processed { Event::Process(pkt) } else { Event::Decode(pkt) }];
        acc.evals += 1;
        let j = judge_encseq(prop, &cfg, &history, call, 0x34, false, false);
        acc.trans += 2;
        acc.validated += 1;
        acc.state(Fnv::default().u64(0xC7B9).u64(i / nb).finish());
        if j.produced {
            acc.nontrivial(Fnv::default().u64(0xC7BA).u64(i).finish());
        }
        acc.outcome2("after-ctrl-header", if j.produced { "ok" } else { "no-packet" });
        if let Some(kf) = j.known {
            acc.known(kf, || json!({"call": call, "dst": 0x34}));
        }
        for (kind, d) in j.viols {
            acc.violation(1, kind, format!("after a received control message with header byte {:#04x}: {}", b9, d), || json!({"prop": prop, "check": "encseq", "cfg": cfg, "history": history, "call": call, "dst": 0x34, "reuse": false}));
        }
    });
}

/// Run-lengths around 2^16 calls and 2^24 generated bytes: one encoder call (a
/// 12-byte request or a maximal 259-byte vendor message) repeated 64 774..=64 779
/// or 65 535..=65 537 times on one context, optionally after storing an EID and
/// optionally followed by storing a lower one, then each of four calls judged.
pub fn sweep_enc_long_runs(run: &mut Run, prop: &'static str) {
    let cfg = encseq_cfg();
    let reps: [usize; 9] = [64_774, 64_775, 64_776, 64_777, 64_778, 64_779, 65_535, 65_536, 65_537];
    let runs: Vec<EncCall> = vec![EncCall::ReqGetEid, EncCall::Vendor { fmt: 0, data: 0x1AF4, num: 1, msg: vec![0x51; 247] }, EncCall::RespVersion { cc: 0 }];
    let lasts: Vec<EncCall> = vec![
        EncCall::ReqGetEid,
        EncCall::Vendor { fmt: 0, data: 0x1AF4, num: 1, msg: vec![0x51; 247] },
        EncCall::RespGetEid { cc: 0, ty: 0, idty: 0, fair: false },
        EncCall::Raw { half: Half::Req, writer: Writer::Spdm, hdr: None, data: vec![0x57; 4] },
    ];
    let n = (runs.len() * reps.len() * 2 * 2 * lasts.len()) as u64;
    run.sweep("long runs: 3 encoder calls x repeat counts 64 774..=64 779 and 65 535..=65 537 x {EID stored before} x {lower EID stored after} x 4 judged calls", n, |acc, i| {
        let mut ix = Ix(i);
        let call = &lasts[ix.take(lasts.len() as u64) as usize];
        let post = ix.take(2) == 1;
        let pre = ix.take(2) == 1;
        let rep = reps[ix.take(reps.len() as u64) as usize];
        let rc = &runs[ix.take(runs.len() as u64) as usize];
        let mut history: Vec<Event> = vec![];
        if pre {
            history.push(Event::SetEidReq(0xA8));
            history.push(Event::SetEidResp(0xA8));
        }
        for _ in 0..rep {
            history.push(Event::Encode { call: rc.clone(), dst: 0x34 });
        }
        if post {
            history.push(Event::SetEidReq(0x17));
            history.push(Event::SetEidResp(0x17));
        }
        acc.evals += 1;
        let j = judge_encseq(prop, &cfg, &history, call, 0x34, false, false);
        acc.trans += history.len() as u64 + 1;
        acc.validated += 1;
        acc.state(Fnv::default().u64(0x10E6).u64(i).finish());
        if j.produced {
            acc.nontrivial(Fnv::default().u64(0x10E7).u64(i).finish());
        }
        for (kind, d) in j.viols {
            acc.violation(3, kind, format!("after {} x {} on one context{}{}: {}", rep, rc.name(), if pre { ", an EID stored before" } else { "" }, if post { ", a lower EID stored after" } else { "" }, d), || {
                json!({"prop": prop, "check": "longrun", "cfg": cfg, "run_call": rc, "repeat": rep, "pre": pre, "post": post, "call": call, "dst": 0x34})
            });
        }
    });
}

/// The buffer already holds this very packet with one byte damaged (every byte
/// in turn): an encoder that recognises "already there" must still repair it.
pub fn sweep_damaged_prefill(run: &mut Run, prop: &'static str) {
    let basic = basic_calls();
    let cfg = encseq_cfg();
    // index -> (call, damaged position); positions beyond the packet are skipped
    run.sweep("buffer pre-filled with the call's own packet with one byte damaged (every position) x 30 kinds x 2 tuples", basic.len() as u64 * 270, |acc, k| {
        let call = &basic[(k / 270) as usize];
        let pos = (k % 270) as usize;
        let EncExp::Bytes(exp) = expect(call, cfg.addr, 0x34, 0) else { return };
        if pos >= exp.len() {
            return;
        }
        let owned = Owned::new(&cfg);
        let ctx = owned.ctx();
        let probe = owned.ctx();
        // what the library itself writes for this call (so that its own bytes, not the reference's, are in the buffer)
        let first = run_enc(&ctx, call, 0x34, 1024, 2);
        let EncOut::Ok(n) = first.out else { return };
        let mut pre = first.buf[..n.min(first.buf.len())].to_vec();
        if pos >= pre.len() {
            return;
        }
        pre[pos] ^= 0xFF;
        acc.evals += 1;
        set_prefill(Some(pre));
        let j = judge_enc(prop, &ctx, &probe, cfg.addr, 0, call, 0x34, 0, false);
        set_prefill(None);
        acc.trans += 2;
        acc.validated += 1;
        acc.nontrivial(Fnv::default().u64(0xDA3A).u64(k).finish());
        for (kind, d) in j.viols {
            let history = vec![Event::Encode { call: call.clone(), dst: 0x34 }];
            acc.violation(1, kind, format!("buffer held this packet with byte {} inverted: {}", pos, d), || json!({"prop": prop, "check": "damaged", "cfg": cfg, "history": history, "call": call, "dst": 0x34, "pos": pos}));
        }
    });
}

pub fn encseq_cfg() -> Cfg {
    Cfg { addr: SEQ_OWN, msg_types: vec![0x7E, 0x05], vendors: vec![(0, 0x1414, 4), (1, 0xDEADBEEF, 9)] }
}

/// Judge the last call of a sequence: the history (all but the last event) is
/// replayed on a fresh context; if the event just before the last is an encoder
/// call and `reuse` is set, its output stays in the buffer the last call writes to.
pub fn judge_encseq(prop: &str, cfg: &Cfg, history: &[Event], call: &EncCall, dst: u8, reuse: bool, want_obs: bool) -> Judged {
    let owned = Owned::new(cfg);
    let ps = probe_spec();
    let po = Owned::new(&ps.cfg);
    let probe = if prop == "C04" { build(&po, &ps.history) } else { po.ctx() };
    let spec = CtxSpec { cfg: cfg.clone(), history: history.to_vec() };
    let eid_resp = build_ref(&spec).eid_resp;
    let mut prefill = None;
    let ctx = if reuse && matches!(history.last(), Some(Event::Encode { .. })) {
        let ctx = build(&owned, &history[..history.len() - 1]);
        if let Some(Event::Encode { call: pc, dst: pd }) = history.last() {
            let r = run_enc(&ctx, pc, *pd, 1024, 2);
            if let EncOut::Ok(n) = r.out {
                prefill = Some(r.buf[..n.min(r.buf.len())].to_vec());
            }
        }
        ctx
    } else {
        build(&owned, history)
    };
    set_prefill(prefill);
    ALLOWED_IID.with(|c| c.set(last_request_iid(history)));
    let j = judge_enc(prop, &ctx, &probe, cfg.addr, eid_resp, call, dst, 0, want_obs);
    ALLOWED_IID.with(|c| c.set(None));
    set_prefill(None);
    j
}

pub fn sweep_encseq(run: &mut Run, prop: &'static str) {
    let depth: u32 = if run.tier.thorough() { 4 } else { 3 };
    let alphabet = encseq_alphabet();
    let a = alphabet.len() as u64;
    let nenc = alphabet.iter().filter(|e| matches!(e, Event::Encode { .. })).count() as u64;
    let cfg = encseq_cfg();
    // sequences of length 1..=depth whose last event is an encoder call; x {fresh buffer, reused buffer}
    let total: u64 = (1..=depth).map(|d| a.pow(d - 1) * nenc).sum();
    run.bound("encoder_sequence_depth", depth as u64);
    run.bound("encoder_sequence_alphabet", a);
    run.sweep(
        &format!("ENCSEQ: every sequence of length <= {} over {} events ({} encoder calls x 3 destinations, 11 state/receive events) ending in an encoder call, x fresh/reused output buffer", depth, a, nenc / 3),
        total * 2,
        |acc, k| {
            let reuse = k % 2 == 1;
            let mut r = k / 2;
            let mut len = 1u32;
            loop {
                let c = a.pow(len - 1) * nenc;
                if r < c {
                    break;
                }
                r -= c;
                len += 1;
            }
            let last = &alphabet[(r % nenc) as usize];
            r /= nenc;
            let mut history = vec![];
            for _ in 1..len {
                history.push(alphabet[(r % a) as usize].clone());
                r /= a;
            }
            history.reverse();
            let Event::Encode { call, dst } = last else { return };
            acc.evals += 1;
            if reuse && !matches!(history.last(), Some(Event::Encode { .. })) {
                return; // nothing to reuse: identical to the fresh-buffer case
            }
            let sampled = k % 100_003 == 7;
            let j = judge_encseq(prop, &cfg, &history, call, *dst, reuse, sampled);
            acc.trans += history.len() as u64 + if prop == "C16" { 3 } else { 1 };
            acc.validated += 1;
            let f = Fnv::default().u64(fp(&history)).u64(fp(call)).u64(*dst as u64 | ((reuse as u64) << 8)).finish();
            acc.state(f);
            if j.produced && len >= 2 {
                acc.nontrivial(f);
            }
            acc.outcome2("encseq", if j.produced { "ok" } else { "no-packet" });
            if let Some(kf) = j.known {
                acc.known(kf, || json!({"call": call, "dst": dst}));
            }
            if sampled {
                acc.sample(|| json!({"history": history, "call": call, "dst": dst, "reused_buffer": reuse, "observed": j.observed}));
            }
            for (kind, d) in j.viols {
                acc.violation(len as u64 + reuse as u64, kind, format!("after {} earlier call(s)/event(s){}: {}", len - 1, if reuse { ", output buffer reused" } else { "" }, d), || {
                    json!({"prop": prop, "check": "encseq", "cfg": cfg, "history": history, "call": call, "dst": dst, "reuse": reuse})
                });
            }
        },
    );
}

fn spaces_sweep(run: &mut Run, prop: &'static str, spaces: &[CallSpace], addrs: &Addrs, nspecs: u64) {
    for s in spaces {
        sweep_enc(run, prop, &s.name, s.n, &|i| s.get(i), addrs, nspecs);
    }
}

fn sized_space(max_data: usize) -> (u64, impl Fn(u64) -> EncCall + Sync) {
    // (kind, data_len, content) flattened
    let per_kind: u64 = (0..=max_data).map(body_contents).sum();
    (per_kind * SIZED_KINDS, move |i| {
        let kind = i / per_kind;
        let mut r = i % per_kind;
        let mut len = 0usize;
        while r >= body_contents(len) {
            r -= body_contents(len);
            len += 1;
        }
        sized_call(kind, len, r)
    })
}

fn all_spaces(tier: crate::engine::Tier) -> Vec<CallSpace> {
    let mut v = request_spaces(tier);
    v.extend(response_spaces(tier));
    v.extend(vendor_spaces(tier, false));
    v
}

// ---------------------------------------------------------------------------
// The properties
// ---------------------------------------------------------------------------

pub fn run_c03(run: &mut Run) {
    run.rule = "the responses process_packet generates (8 request kinds x instance id 0..=31 x D x rsvd x 16 address pairs x 3 responder states); every encoder kind (30) x all 128x128 (src,dst) x 2 argument tuples x 4 encoder contexts; the C06/C07/C08 argument spaces (byte parameters fully crossed, lanes) at 5 address pairs; 5 writers + vendor_defined with every data length 0..=255 x (4 backgrounds + walking byte at every position x 3 values); oracle: last byte == bitwise CRC-8(poly 0x07) of all preceding bytes; non-trivial = calls that produced a packet".into();
    run.bound("addresses", "128x128");
    run.bound("data_lengths", "0..=255 (totals 10..=269, refusals beyond 259 not judged here)");
    run.assume("bitwise CRC-8 reference shares no code with the smbus-pec table used by the library");
    let basic = basic_calls();
    sweep_enc(run, "C03", "30 kinds x 2 tuples x 128x128 x 4 ctxs", basic.len() as u64, &|i| basic[i as usize].clone(), &Addrs::All7, 4);
    let sp = all_spaces(run.tier);
    let a = pairs_or_lanes(run, five_pairs());
    spaces_sweep(run, "C03", &sp, &a, 1);
    let (n, f) = sized_space(255);
    sweep_enc(run, "C03", "writers x every data length x walking contents", n, &f, &Addrs::List(vec![(0x23, 0x34), (0x7F, 0x01)]), 2);
    c03_responses(run);
    lib_responses_t1(run, "C03");
    // self-referential content: a message byte equal to the running CRC-8 of everything before it
    // (the remainder becomes zero there), followed by zeros or by 0xFF
    {
        let pairs = [(0x23u8, 0x34u8), (0x00, 0x00), (0x7F, 0x7F), (0x55, 0x2A), (0x01, 0x7E)];
        run.sweep("vendor/SPDM messages of 64 bytes whose byte p equals the running CRC-8 of the packet so far (p = 0..=63) x 2 tails x 4 kinds x 5 address pairs", 64 * 2 * 4 * 5, |acc, i| {
            let mut ix = Ix(i);
            let p = ix.take(64) as usize;
            let tail = [0x00u8, 0xFF][ix.take(2) as usize];
            let kind = ix.take(4);
            let (src, dst) = pairs[ix.take(5) as usize];
            let mk = |msg: Vec<u8>| match kind {
                0 => EncCall::Vendor { fmt: 0, data: 0x1AF4, num: 1, msg },
                1 => EncCall::Vendor { fmt: 1, data: 0x0000_1AF4, num: 1, msg },
                2 => EncCall::Raw { half: Half::Req, writer: Writer::Spdm, hdr: None, data: msg },
                _ => EncCall::Raw { half: Half::Resp, writer: Writer::Secured, hdr: Some(vec![0x11, 0x22]), data: msg },
            };
            // position of message byte p inside the packet: find it from the reference packet of a marker message
            let mut msg = vec![tail; 64];
            msg[p] = 0x00;
            let EncExp::Bytes(probe_pkt) = expect(&mk(msg.clone()), src, dst, 0) else { return };
            let off = probe_pkt.len() - 1 - 64 + p;
            msg[p] = crc8(&probe_pkt[..off]);
            let call = mk(msg);
            let spec = enc_specs(src).swap_remove(0);
            let owned = Owned::new(&spec.cfg);
            let ctx = owned.ctx();
            let probe = owned.ctx();
            one(acc, "C03", &ctx, &probe, &spec, src, 0, &call, dst, i);
        });
    }
    sweep_encseq(run, "C03");
    enc_pairs(run, "C03");
    sweep_encdeep(run, "C03");
    sweep_enc_thrash(run, "C03");
    sweep_enc_after_ctrl_header(run, "C03");
    sweep_enc_long_runs(run, "C03");
    sweep_damaged_prefill(run, "C03");
}

/// C03 also covers the packets the library encodes on its own: the responses
/// `process_packet` generates.
fn judge_c03_response(spec: &CtxSpec, pkt: &[u8]) -> (Option<String>, String, bool) {
    judge_lib_response("C03", spec, pkt)
}

/// A response the library encodes on its own (`process_packet`), judged by the
/// encoder property's own aspect: C03 the PEC; C04 command byte, byte count ==
/// reported length - 4 == measured extent - 4, own address with the read bit in
/// byte 3, write bit clear in byte 0, and the length probe on every prefix;
/// C05 version/reserved, source EID == own address, SOM = EOM = 1 and sequence
/// 0, IC clear and type 0x00.  (Which *destination* a response should carry is
/// C12's statement, not theirs.)
fn judge_lib_response(prop: &str, spec: &CtxSpec, pkt: &[u8]) -> (Option<String>, String, bool) {
    let owned = Owned::new(&spec.cfg);
    let mut ctx = build(&owned, &spec.history);
    let obs = subject::apply(&mut ctx, &Event::Process(pkt.to_vec()));
    let crate::subject::StepOut::Proc { out, resp, extent } = &obs.out else { return (Some("harness: not a process step".into()), String::new(), false) };
    let observed = format!("{:?} {}", out, hex(resp));
    let Some(n) = out.resp_len else { return (None, observed, false) };
    if n < 1 || n > resp.len() {
        return (None, observed, false);
    }
    let own = spec.cfg.addr;
    let r = &resp[..n];
    let mut bad: Vec<String> = vec![];
    match prop {
        "C03" => {
            let want = crc8(&r[..n - 1]);
            if r[n - 1] != want {
                bad.push(format!("last byte {:#04x} is not the CRC-8 {:#04x} of the preceding {} bytes", r[n - 1], want, n - 1));
            }
        }
        "C04" if n >= 4 => {
            if r[0] & 1 != 0 {
                bad.push(format!("byte 0 is {:#04x}: the write bit is not clear", r[0]));
            }
            if r[1] != 0x0F {
                bad.push(format!("command code byte is {:#04x}", r[1]));
            }
            if r[2] as usize + 4 != n {
                bad.push(format!("byte count {} + 4 != reported length {}", r[2], n));
            }
            // (the extent is measured against one poison pattern: a written byte that happens to
            // equal its poison looks unwritten, so only a shortfall not explained that way counts)
            if *extent > n || (*extent..n).any(|j| r[j] != subject::poison(j, 0)) {
                bad.push(format!("bytes were written up to offset {} but the reported length is {}", extent, n));
            }
            if r[3] != ((own & 0x7F) << 1) | 1 {
                bad.push(format!("byte 3 is {:#04x}, expected the responder's address {:#04x} with bit 0 set", r[3], ((own & 0x7F) << 1) | 1));
            }
            for k in 3..=n {
                let got = subject::get_length(&ctx, &r[..k]);
                if got != LenOut::Ok(n) {
                    bad.push(format!("get_length on the first {} bytes = {:?}, reported length {}", k, got, n));
                    break;
                }
            }
        }
        "C05" if n >= 10 => {
            if r[4] != 0x01 {
                bad.push(format!("byte 4 (reserved/version) is {:#04x}", r[4]));
            }
            if r[6] != own {
                bad.push(format!("byte 6 (source EID) is {:#04x}, the responder's address is {:#04x}", r[6], own));
            }
            if r[7] & 0xF0 != 0xC0 {
                bad.push(format!("byte 7 is {:#04x}: SOM/EOM/sequence are not 1/1/0", r[7]));
            }
            if r[8] != 0x00 {
                bad.push(format!("byte 8 (IC/message type) is {:#04x}", r[8]));
            }
        }
        _ => {}
    }
    if bad.is_empty() {
        (None, observed, true)
    } else {
        (Some(format!("the response to {} is {}: {}", hex(pkt), hex(r), bad.join("; "))), observed, true)
    }
}

/// Responses to requests whose *own* framing is unusual: each of the nine SMBus /
/// transport / type bytes of each answerable request takes all 256 values (PEC
/// re-computed), on three responder states.  What the requester put in its
/// headers must not damage the framing of the answer.
pub fn lib_responses_t1(run: &mut Run, prop: &'static str) {
    let kinds: Vec<(u8, Vec<u8>)> = vec![(0x01, vec![0, 0x5A]), (0x01, vec![1, 0xFE]), (0x01, vec![3, 0x01]), (0x02, vec![]), (0x03, vec![]), (0x04, vec![0xFF]), (0x05, vec![]), (0x06, vec![0])];
    let nk = kinds.len() as u64;
    run.sweep("responses generated by process_packet to requests with one header byte (0..=8) deviating: 8 kinds x 9 positions x 256 values x 2 instance ids x 3 responder states", nk * 9 * 256 * 2 * 3, |acc, i| {
        let mut ix = Ix(i);
        let st = ix.take(3);
        let iid = if ix.take(2) == 1 { 9u8 } else { 0 };
        let val = ix.take(256) as u8;
        let pos = ix.take(9) as usize;
        let (cmd, data) = &kinds[ix.take(nk) as usize];
        let (requester, responder) = (0x10u8, 0x23u8);
        let mut pkt = forge_request(requester, responder, iid, false, *cmd, data);
        pkt[pos] = val;
        fix_pec(&mut pkt);
        let cfg = Cfg { addr: responder, msg_types: vec![0x7E, 0x05], vendors: vec![(0, 0x1414, 4), (1, 0xDEADBEEF, 9)] };
        let history = match st {
            0 => vec![],
            1 => vec![Event::Process(set_eid_req(0x10, responder, 0, 0x99))],
            _ => vec![Event::SetUuid(U1), Event::SetEidResp(0x3C)],
        };
        let spec = CtxSpec { cfg, history };
        acc.evals += 1;
        let (v, observed, answered) = judge_lib_response(prop, &spec, &pkt);
        acc.trans += 1;
        acc.validated += 1;
        let f = Fnv::default().bytes(&pkt).u64(st).finish();
        acc.state(f);
        if answered {
            acc.nontrivial(f);
        }
        acc.outcome2("process_packet response (deviating request header)", if answered { "ok" } else { "no-packet" });
        if i % 20_011 == 3 {
            acc.sample(|| json!({"request": hex(&pkt), "observed": observed}));
        }
        if let Some(d) = v {
            acc.violation(1, "response", d, || json!({"prop": prop, "check": "response", "spec": spec, "request": hex(&pkt)}));
        }
    });
}

fn c03_responses(run: &mut Run) {
    // 8 answerable kinds x instance id 0..=31 x D bit x rsvd bit x 16 (requester, responder) pairs x 3 states
    let pairs: Vec<(u8, u8)> = (0..16u8).map(|k| (k.wrapping_mul(37) & 0x7F, 0x7Fu8.wrapping_sub(k.wrapping_mul(11)) & 0x7F)).collect();
    run.sweep("responses generated by process_packet: 8 request kinds x instance id x D x rsvd x 16 address pairs x 3 responder states", 8 * 32 * 2 * 2 * 16 * 3, |acc, i| {
        let mut ix = Ix(i);
        let st = ix.take(3);
        let (requester, responder) = pairs[ix.take(16) as usize];
        let rsvd = ix.take(2) == 1;
        let d = ix.take(2) == 1;
        let iid = ix.take(32) as u8;
        let k = ix.take(8);
        let (cmd, data): (u8, Vec<u8>) = match k {
            0 => (0x01, vec![0, 0x5A]),
            1 => (0x01, vec![1, 0xFE]),
            2 => (0x01, vec![3, 0x01]),
            3 => (0x02, vec![]),
            4 => (0x03, vec![]),
            5 => (0x04, vec![0xFF]),
            6 => (0x05, vec![]),
            _ => (0x06, vec![0]),
        };
        let mut pkt = forge_request(requester, responder, iid, d, cmd, &data);
        if rsvd {
            pkt[9] |= 0x20;
            fix_pec(&mut pkt);
        }
        let cfg = Cfg { addr: responder, msg_types: vec![0x7E, 0x05], vendors: vec![(0, 0x1414, 4), (1, 0xDEADBEEF, 9)] };
        let history = match st {
            0 => vec![],
            1 => vec![Event::Process(set_eid_req(0x10, responder, 0, 0x99))],
            _ => vec![Event::SetUuid(U1), Event::SetEidResp(0x3C)],
        };
        let spec = CtxSpec { cfg, history };
        acc.evals += 1;
        let (v, observed, answered) = judge_c03_response(&spec, &pkt);
        acc.trans += 1;
        acc.validated += 1;
        let f = Fnv::default().bytes(&pkt).u64(st).finish();
        acc.state(f);
        if answered {
            acc.nontrivial(f);
        }
        acc.outcome2("process_packet response", if answered { "ok" } else { "no-packet" });
        if i % 20_011 == 3 {
            acc.sample(|| json!({"request": hex(&pkt), "observed": observed}));
        }
        if let Some(d) = v {
            acc.violation(spec.history.len() as u64, "pec", d, || json!({"prop": "C03", "check": "response", "spec": spec, "request": hex(&pkt)}));
        }
    });
}

pub fn run_c04(run: &mut Run) {
    run.rule = "C03's address/argument space plus data of every size 0..=300 for the 5 writers and vendor_defined into 1024-byte poisoned buffers; oracle: bytes 0-3, byte count + 4 == reported length == measured end of writing, get_length on every prefix >= 3 bytes on two contexts, oversize refused with the buffer untouched; non-trivial = calls that produced a packet".into();
    run.bound("addresses", "128x128");
    run.bound("data_lengths", "0..=300");
    run.assume("the written extent is measured with two different poisons, not taken from the return value");
    let basic = basic_calls();
    sweep_enc(run, "C04", "30 kinds x 2 tuples x 128x128 x 4 ctxs", basic.len() as u64, &|i| basic[i as usize].clone(), &Addrs::All7, 4);
    let sp = all_spaces(run.tier);
    let a = pairs_or_lanes(run, Addrs::List(vec![(0x23, 0x34), (0x7F, 0x7F)]));
    spaces_sweep(run, "C04", &sp, &a, 1);
    // every size, but only backgrounds + a thinned walking byte (content does not matter to framing)
    let (n, f) = sized_space(300);
    sweep_enc(run, "C04", "writers x every data length 0..=300 x contents", n, &f, &Addrs::List(vec![(0x55, 0x2A)]), 1);
    sweep_enc(run, "C04", "writers x data lengths 65 236..=65 836 (around 2^16: length arithmetic narrower than usize)", SIZED_KINDS * 601, &|i| sized_call(i / 601, 65_236 + (i % 601) as usize, 2), &Addrs::All7Stride, 1);
    sweep_encseq(run, "C04");
    enc_pairs(run, "C04");
    sweep_encdeep(run, "C04");
    lib_responses_t1(run, "C04");
    sweep_enc_thrash(run, "C04");
    sweep_enc_after_ctrl_header(run, "C04");
    sweep_enc_long_runs(run, "C04");
}

pub fn run_c05(run: &mut Run) {
    run.rule = "every encoder kind (30, two argument tuples) x all 256x256 (context address, destination) x 4 encoder contexts (EID 0, 0x42 via accessors, 0x99 via assignment, vendor query processed); argument spaces at 3 pairs; oracle: byte4==0x01, byte5==dst, byte6==address, byte7==0xC8 (requests/vendor/SPDM; responses: high nibble only), byte8==type of the API; non-trivial = calls that produced a packet".into();
    run.bound("addresses", "256x256");
    run.assume("tag-owner/tag of responses are not claimed by C05 (the library sets TO=1); compared under mask 0xF0");
    let basic = basic_calls();
    sweep_enc(run, "C05", "30 kinds x 2 tuples x 256x256 x 4 ctxs", basic.len() as u64, &|i| basic[i as usize].clone(), &Addrs::All8, 4);
    let sp = all_spaces(run.tier);
    let a = if run.tier.thorough() {
        Addrs::List((0..=255u8).map(|a| (a, 0x34)).chain((0..=255u8).map(|a| (0x23, a))).collect())
    } else {
        Addrs::List(vec![(0x23, 0x34), (0xFF, 0x80), (0x00, 0xFF)])
    };
    spaces_sweep(run, "C05", &sp, &a, 1);
    sweep_encseq(run, "C05");
    enc_pairs(run, "C05");
    sweep_encdeep(run, "C05");
    lib_responses_t1(run, "C05");
    sweep_enc_thrash(run, "C05");
    sweep_enc_after_ctrl_header(run, "C05");
    sweep_enc_long_runs(run, "C05");
}

pub fn run_c06(run: &mut Run) {
    run.rule = "17 request encoders; every enum variant x all 256 values of each byte parameter fully crossed (Set EID 4x256, Allocate 3x256x256, Query Hop 256x6), UUID byte lanes x 4 backgrounds x handles, 0..=7 routing entries with every byte lane (both constructors); at 2 address pairs and on 4 contexts for the basic tuples; oracle: message bytes 8..len-1 equal the DSP0236 layout; non-trivial = calls that produced a packet".into();
    run.assume("K-C06-QUERYHOP is attributed only when byte 10 is 0x0E and every other byte (PEC included) is as specified");
    let sp = request_spaces(run.tier);
    let a = pairs_or_lanes(run, Addrs::List(vec![(0x23, 0x34), (0x7F, 0x00)]));
    // on all four encoder contexts: their stored EIDs (0x42, 0x99, 0x3C) collide with argument values
    // of the fully crossed spaces (seeded change C06-r3-1 refuses the EID the device itself holds)
    let ns = if run.tier.thorough() { 1 } else { 4 };
    spaces_sweep(run, "C06", &sp, &a, ns);
    if run.tier.thorough() {
        spaces_sweep(run, "C06", &sp, &Addrs::List(vec![(0x23, 0x34)]), 4);
    }
    let basic: Vec<EncCall> = basic_calls().into_iter().filter(|c| c.is_request()).collect();
    sweep_enc(run, "C06", "request tuples x 5 pairs x 4 ctxs", basic.len() as u64, &|i| basic[i as usize].clone(), &five_pairs(), 4);
    sweep_encseq(run, "C06");
    enc_pairs(run, "C06");
    sweep_encdeep(run, "C06");
    sweep_enc_thrash(run, "C06");
    sweep_enc_after_ctrl_header(run, "C06");
    sweep_enc_long_runs(run, "C06");
}

/// C07 adds the stored-EID dimension through context histories.
pub fn run_c07(run: &mut Run) {
    run.rule = "6 response encoders x 6 completion codes x every status/type enum combination x all 256 EIDs stored through the response half's accessor, through the request half's accessor (must not show) and through a processed Set Endpoint ID; UUID lanes; message-type lists of every length 0..=30 x lanes; vendor fields of every length 0..=7 x lanes x selectors; oracle: bytes 8..len-1 (Success) / header + code (other codes); non-trivial = calls that produced a packet".into();
    let sp = response_spaces(run.tier);
    let a = pairs_or_lanes(run, Addrs::List(vec![(0x23, 0x34), (0x00, 0x7F)]));
    spaces_sweep(run, "C07", &sp, &a, 4);
    // stored EID dimension: 256 EIDs x 3 ways of storing x all Set/Get EID enum combinations at Success + one other code
    let probe_s = probe_spec();
    let combos: Vec<EncCall> = {
        let mut v = vec![];
        for cc in [0u8, 2] {
            for assign in 0..2 {
                for alloc in 0..3 {
                    v.push(EncCall::RespSetEid { cc, assign, alloc });
                }
            }
            for ty in 0..2 {
                for idty in 0..4 {
                    for fair in [false, true] {
                        v.push(EncCall::RespGetEid { cc, ty, idty, fair });
                    }
                }
            }
        }
        v
    };
    let nc = combos.len() as u64;
    run.sweep_chunked("Set/Get EID responses x 256 stored EIDs x 3 ways of storing", nc * 256 * 3, |acc, lo, hi| {
        let probe_o = Owned::new(&probe_s.cfg);
        for i in lo..hi {
            let probe = probe_o.ctx();
            let mut ix = Ix(i);
            let eid = ix.take(256) as u8;
            let way = ix.take(3);
            let call = &combos[ix.take(nc) as usize];
            let addr = 0x31u8;
            let cfg = Cfg::simple(addr);
            let history = match way {
                0 => vec![Event::SetEidResp(eid)],
                1 => vec![Event::SetEidResp(eid), Event::SetEidReq(eid ^ 0xFF)],
                _ => {
                    if eid == 0x00 || eid == 0xFF {
                        // a Set Endpoint ID request cannot carry these through the library's own encoder;
                        // forged requests can, and the stored value must still be what is reported
                        vec![Event::Process(set_eid_req(0x10, addr, 1, eid))]
                    } else {
                        vec![Event::SetEidResp(0x77), Event::Process(set_eid_req(0x10, addr, 0, eid))]
                    }
                }
            };
            let spec = CtxSpec { cfg, history };
            let owned = Owned::new(&spec.cfg);
            let ctx = build(&owned, &spec.history);
            let eid_resp = build_ref(&spec).eid_resp;
            one(acc, "C07", &ctx, &probe, &spec, addr, eid_resp, call, 0x52, i);
        }
    });
    sweep_encseq(run, "C07");
    enc_pairs(run, "C07");
    sweep_encdeep(run, "C07");
    sweep_enc_thrash(run, "C07");
    sweep_enc_after_ctrl_header(run, "C07");
    sweep_enc_long_runs(run, "C07");
}

pub fn run_c08(run: &mut Run) {
    run.rule = "vendor_defined: all 256 format bytes (2..=255 refused, buffer untouched), all 65 536 PCI ids x 3 upper halves, IANA byte lanes x 4 backgrounds + every value of each 16-bit half (thorough: all 2^32), all 65 536 numeric values, message bodies of every length 0..=250 x walking contents; raw PCI/IANA/SPDM/secured writers: header None/0..=8 bytes x data length 0..=252 x 3 contents x both halves; oracle: bytes 8..len-1 == type byte, id big-endian, message verbatim; non-trivial = calls that produced a packet".into();
    let sp = vendor_spaces(run.tier, run.tier.thorough());
    spaces_sweep(run, "C08", &sp, &Addrs::List(vec![(0x23, 0x34)]), 1);
    let basic: Vec<EncCall> = basic_calls().into_iter().filter(|c| !c.is_request() && !c.is_response()).collect();
    sweep_enc(run, "C08", "vendor/raw tuples x 5 pairs x 4 ctxs", basic.len() as u64, &|i| basic[i as usize].clone(), &five_pairs(), 4);
    if run.tier.thorough() {
        // all 2^32 IANA numbers, each on a context that has just encoded a PCI message for 0x8086
        // (and all 65 536 PCI ids after an IANA message): anything that keys the two formats on a
        // common digest collides for some pair in here
        let cfg = encseq_cfg();
        run.sweep_chunked("all 2^32 IANA numbers after a PCI 0x8086 message on the same context", 1u64 << 32, |acc, lo, hi| {
            let owned = Owned::new(&cfg);
            let pci = EncCall::Vendor { fmt: 0, data: 0x8086, num: 1, msg: vec![0x11] };
            let mut buf = [0u8; 64];
            for i in lo..hi {
                let ctx = owned.ctx();
                let _ = subject::encode(&ctx, &pci, 0x34, &mut buf);
                let call = EncCall::Vendor { fmt: 1, data: i as u32, num: 1, msg: vec![] };
                let mut out = [0u8; 32];
                let r = subject::encode(&ctx, &call, 0x34, &mut out);
                let d = (i as u32).to_be_bytes();
                let ok = r == EncOut::Ok(14) && out[8] == 0x7F && out[9..13] == d && crc8(&out[..14]) == 0;
                if !ok {
                    let history = vec![Event::Encode { call: pci.clone(), dst: 0x34 }];
                    acc.violation(2, "body", format!("IANA {:#010x} after a PCI message: {:?} {}", i, r, hex(&out[..16])), || json!({"prop": "C08", "check": "encseq", "cfg": cfg, "history": history, "call": call, "dst": 0x34, "reuse": false}));
                }
            }
            let k = hi - lo;
            acc.evals += k;
            acc.trans += 2 * k;
            acc.validated += k;
        });
    }
    sweep_encseq(run, "C08");
    sweep_encdeep(run, "C08");
    sweep_enc_thrash(run, "C08");
    sweep_enc_after_ctrl_header(run, "C08");
    sweep_enc_long_runs(run, "C08");
}

pub fn run_c16(run: &mut Run) {
    run.rule = "every call of the C06/C07/C08 argument spaces on three buffers (exact length poison 0xAA; length+spare in {1,2,3,8,64} poison 0x55; 1024 bytes poison i*73+5): Ok(n) equal across buffers, bytes [0,n) identical across buffers, nothing beyond n modified; refusal axes (EID 0x00/0xFF x 4 operations, 8..=12 routing entries, 31..=40 message types, formats 2..=255, bodies beyond the frame) return Err with the buffer untouched; everything else succeeds without panicking; non-trivial = calls that produced a packet".into();
    run.assume("bytes are compared across buffers, not with the reference (byte values are C06-C08's claim)");
    let sp = all_spaces(run.tier);
    let a = pairs_or_lanes(run, Addrs::List(vec![(0x23, 0x34), (0x7F, 0x7F)]));
    spaces_sweep(run, "C16", &sp, &a, 1);
    let basic = basic_calls();
    sweep_enc(run, "C16", "30 kinds x 2 tuples x 5 pairs x 4 ctxs", basic.len() as u64, &|i| basic[i as usize].clone(), &five_pairs(), 4);
    let (n, f) = sized_space(300);
    sweep_enc(run, "C16", "writers x every data length 0..=300 x contents", n, &f, &Addrs::List(vec![(0x55, 0x2A)]), 1);
    sweep_enc(run, "C16", "writers x data lengths 65 236..=65 836 (around 2^16)", SIZED_KINDS * 601, &|i| sized_call(i / 601, 65_236 + (i % 601) as usize, 2), &Addrs::All7Stride, 1);
    // refusal axis: reserved EIDs x 4 operations x all 128x128 addresses
    sweep_enc(run, "C16", "set_endpoint_id EID in {0x00,0xFF,0x01,0xFE} x 4 ops x 128x128", 16, &|i| EncCall::ReqSetEid { op: (i / 4) as u8, eid: [0x00, 0xFF, 0x01, 0xFE][(i % 4) as usize] }, &Addrs::All7, 1);
    sweep_encseq(run, "C16");
    enc_pairs(run, "C16");
    sweep_encdeep(run, "C16");
    sweep_enc_thrash(run, "C16");
    sweep_enc_after_ctrl_header(run, "C16");
    sweep_enc_long_runs(run, "C16");
    sweep_damaged_prefill(run, "C16");
}

/// ENCPAIR: every ordered pair (previous, current) over complete small argument
/// spaces on one context, the current call writing into the buffer that still
/// holds the previous call's packet (same destination, often the same length)
/// and, for the other encoder properties, also into a fresh buffer: the output
/// of the second call is judged by the property's own aspect.
pub fn enc_pairs(run: &mut Run, prop: &'static str) {
    let spaces: Vec<(&str, u64, Box<dyn Fn(u64) -> EncCall + Sync>)> = vec![
        ("set_endpoint_id op x eid", 1024, Box::new(|i| EncCall::ReqSetEid { op: (i / 256) as u8, eid: i as u8 })),
        ("query_hop eid x type", 1536, Box::new(|i| EncCall::ReqQueryHop { eid: i as u8, ty: (i / 256) as u8 })),
        ("allocate_endpoint_ids op x (size lane | first lane)", 1536, Box::new(|i| {
            let op = (i / 512) as u8;
            let v = i as u8;
            if (i / 256) % 2 == 0 { EncCall::ReqAllocate { op, size: v, first: 0x20 } } else { EncCall::ReqAllocate { op, size: 0x08, first: v } }
        })),
        ("resp.set_endpoint_id / get_endpoint_id enum combinations", 52, Box::new(|i| {
            if i < 36 {
                let mut ix = Ix(i);
                EncCall::RespSetEid { cc: ix.take(6) as u8, assign: ix.take(2) as u8, alloc: ix.take(3) as u8 }
            } else {
                let mut ix = Ix(i - 36);
                EncCall::RespGetEid { cc: 0, ty: ix.take(2) as u8, idty: ix.take(4) as u8, fair: ix.take(2) == 1 }
            }
        })),
    ];
    let cfg = Cfg::simple(0x23);
    for (name, n, f) in &spaces {
        let n = *n;
        run.sweep_chunked(&format!("buffer reuse: every ordered pair (previous, current) over [{}] ({} x {})", name, n, n), n * n, |acc, lo, hi| {
            let owned = Owned::new(&cfg);
            let po = Owned::new(&cfg);
            for i in lo..hi {
                let prev = f(i / n);
                let cur = f(i % n);
                let ctx = owned.ctx();
                let probe = po.ctx();
                let r = run_enc(&ctx, &prev, 0x34, 1024, 2);
                acc.evals += 1;
                let EncOut::Ok(pn) = r.out else { continue };
                set_prefill(Some(r.buf[..pn.min(r.buf.len())].to_vec()));
                let j = judge_enc(prop, &ctx, &probe, cfg.addr, 0, &cur, 0x34, 0, false);
                set_prefill(None);
                acc.trans += 4;
                acc.validated += 1;
                if i % 11 == 0 {
                    acc.state(Fnv::default().u64(fp(&prev)).u64(fp(&cur)).finish());
                }
                if j.produced {
                    acc.nontrivial(Fnv::default().u64(0x16A).u64(fp(&prev)).u64(fp(&cur)).finish());
                }
                for (kind, d) in j.viols {
                    let history = vec![Event::Encode { call: prev.clone(), dst: 0x34 }];
                    acc.violation(2, kind, format!("into the buffer still holding the packet of {:?}: {}", prev, d), || {
                        json!({"prop": prop, "check": "encseq", "cfg": cfg, "history": history, "call": cur, "dst": 0x34, "reuse": true})
                    });
                }
            }
        });
    }
}

fn replay_response(prop: &str, c: &Value) -> Option<Result<ReplayOut, String>> {
    if c["check"].as_str() != Some("response") {
        return None;
    }
    Some((|| {
        let spec: CtxSpec = get_de(c, "spec")?;
        let pkt = get_hex(c, "request")?;
        let (v, observed, _) = judge_lib_response(prop, &spec, &pkt);
        Ok(ReplayOut { violations: v.into_iter().collect(), observed })
    })())
}
pub fn replay_c03(c: &Value) -> Result<ReplayOut, String> {
    replay_response("C03", c).unwrap_or_else(|| replay_enc("C03", c))
}
pub fn replay_c04(c: &Value) -> Result<ReplayOut, String> {
    replay_response("C04", c).unwrap_or_else(|| replay_enc("C04", c))
}
pub fn replay_c05(c: &Value) -> Result<ReplayOut, String> {
    if let Some(r) = replay_response("C05", c) {
        return r;
    }
    replay_enc("C05", c)
}
pub fn replay_c06(c: &Value) -> Result<ReplayOut, String> {
    replay_enc("C06", c)
}
pub fn replay_c07(c: &Value) -> Result<ReplayOut, String> {
    replay_enc("C07", c)
}
pub fn replay_c08(c: &Value) -> Result<ReplayOut, String> {
    replay_enc("C08", c)
}
pub fn replay_c16(c: &Value) -> Result<ReplayOut, String> {
    replay_enc("C16", c)
}
