//! C02, C09, C10, C11: the receive-path properties over the deviation spaces.
use super::common::*;
use super::dec::*;
use super::stateprops::{mixed_machine, runseq_for, sigma13};
use super::*;
use crate::engine::{Acc, Ix, ReplayOut};
use crate::explore::*;
use crate::refmodel::*;
use crate::subject::{self, DecOut, LenOut, Owned, ProcOut};
use crate::types::*;
use serde_json::{json, Value};

fn mode_ok(id: &str, msg: &str) -> bool {
    match id {
        K_REQ_UNIMPL | K_RESP_UNIMPL | K_PROC_UNIMPL => msg.contains("not implemented"),
        K_CC_RANGE | K_PROC_RESERVED => msg.contains("unreachable"),
        K_PROC_SETEID_OP => msg.contains("not implemented") || msg.contains("unreachable"),
        K_PROC_VDM_SEL => msg.contains("index out of bounds") || msg.contains("overflow"),
        _ => false,
    }
}

fn known_decode(rd: &RefDec) -> Option<&'static str> {
    match rd.class {
        Class::KnownPanic(id) => Some(id),
        _ => None,
    }
}

/// The known class (if any) in which `process_packet` panics on this input in
/// the state described by `r`.
pub fn known_process(r: &RefEndpoint, rd: &RefDec, p: &[u8]) -> Option<&'static str> {
    if let Some(id) = known_decode(rd) {
        return Some(id);
    }
    if rd.class == Class::Accept && rd.is_control && rd.is_request {
        let mut rr = r.clone();
        if let (_, RespExp::KnownPanic(id)) = rr.process(p) {
            return Some(id);
        }
    }
    None
}

fn reachable_states(run: &mut Run) -> Vec<Vec<Event>> {
    let m = Machine { cfg: Cfg::simple(DST), init: vec![], alphabet: sigma13() };
    let st = bfs(run, "-", "sigma13 (state generator)", &m, &|_, _| false, 100_000);
    run.bound("reachable_states_of_sigma13_machine", st.bfs_states);
    st.reps
}

// ---------------------------------------------------------------------------
// C09
// ---------------------------------------------------------------------------

fn c09_specs() -> Vec<CtxSpec> {
    vec![
        CtxSpec::fresh(Cfg::simple(0x23)),
        dirty_spec(0x51),
        // forced collisions: own address == the shapes' destination, assigned EID == their source
        CtxSpec { cfg: Cfg::bare(DST), history: vec![Event::Process(set_eid_req(0x7E, DST, 1, SRC))] },
    ]
}

struct J {
    viols: Vec<(&'static str, String)>,
    observed: String,
    outcome: &'static str,
    executed: bool,
}

fn judge_c09(ctxs: &[libmctp::smbus::MCTPSMBusContext], bytes: &[u8], want_obs: bool) -> J {
    let rd = ref_decode(bytes);
    let mut j = J { viols: vec![], observed: String::new(), outcome: "outside-claim", executed: false };
    if matches!(rd.class, Class::KnownPanic(_)) {
        return j; // outside C09's claim (C10 findings); not executed
    }
    j.executed = true;
    let outs: Vec<DecOut> = ctxs.iter().map(|c| subject::decode(c, bytes)).collect();
    if want_obs {
        j.observed = format!("{:?}", outs);
    }
    j.outcome = outs[0].label();
    for o in &outs[1..] {
        if *o != outs[0] {
            j.viols.push(("context-dependent", format!("decoding {} gives {:?} on one context and {:?} on another", hex(bytes), outs[0], o)));
            break;
        }
    }
    if let DecOut::Panic(_) = outs[0] {
        // whether a panic is allowed is C10's question; for C09 it is only a miss when the
        // packet is well-formed and had to be accepted
        if rd.class == Class::Accept {
            j.viols.push(("not-accepted", format!("well-formed packet {} was not accepted: {:?}", hex(bytes), outs[0])));
        }
        return j;
    }
    if let Some(t) = compare_decode(&rd, &outs[0]) {
        let kind = match (rd.class, &outs[0]) {
            (Class::Accept, DecOut::Err { .. }) => "rejected-well-formed",
            (Class::Accept, _) => "wrong-payload",
            (_, DecOut::Ok { .. }) => "accepted-malformed",
            _ => "untruthful-error",
        };
        j.viols.push((kind, format!("{} ({} bytes): {}", hex(bytes), bytes.len(), t)));
    }
    j
}

fn c09_case(bytes: &[u8], ctx_histories: Option<&Vec<Event>>) -> Value {
    json!({"prop": "C09", "check": "decode", "input": hex(bytes), "state": ctx_histories})
}

fn c09_one(acc: &mut Acc, ctxs: &[libmctp::smbus::MCTPSMBusContext], bytes: &[u8], weight: u64, i: u64) {
    acc.evals += 1;
    let sampled = i % 2_000_003 == 17;
    let j = judge_c09(ctxs, bytes, sampled);
    if !j.executed {
        acc.skipped_known += 1;
        acc.outcome2("c09", "outside-claim(known panic class)");
        return;
    }
    acc.trans += ctxs.len() as u64;
    acc.validated += 1;
    acc.outcome2("decode", j.outcome);
    if bytes.len() >= 10 && bytes[4] == 0x01 && bytes[8] & 0x80 == 0 && supported_type(bytes[8]) {
        acc.nontrivial(crate::engine::fp_bytes(9, bytes));
    }
    if i % 61 == 0 {
        acc.state(crate::engine::fp_bytes(0x90, bytes));
    }
    if sampled {
        acc.sample(|| json!({"input": hex(bytes), "observed": j.observed}));
    }
    for (k, d) in j.viols {
        acc.violation(weight, k, d, || c09_case(bytes, None));
    }
}

pub fn run_c09(run: &mut Run) {
    let thorough = run.tier.thorough();
    run.rule = "t-way field deviation around base shapes (every encoder output, forged requests/responses for command codes 0x00-0x15,0x7F,0xFF with data lengths 0..=20,64,243..=248, vendor/SPDM/secured bodies): t=1 every position x 256 values, t=2 all pairs of {4,8,9,10,11,PEC} x 65 536 values on the core shapes (thorough: all pairs of {0..=15,last,PEC}; t=3 bytes 8x9x10), each with the PEC stale and re-computed; the fixed-length rule for every command code x request/response x data length 0..=40; every case decoded on a fresh and a dirty context (results must be identical) and a 1/61 stride on every reachable state of the C13 machine; oracle: ref_decode (accept iff well-formed, exact payload range, admissible error); non-trivial = inputs with a supported header".into();
    run.assume("inputs in the known decode-panic classes (K-C10-REQ-UNIMPL, K-C10-RESP-UNIMPL, K-C10-CC-RANGE) and Success responses to Get EID / Allocate EIDs / Routing Information Update are outside the property's claim");
    run.assume("'every byte string' is covered as t-way field deviation, not as 256^259 strings");
    let specs = c09_specs();
    let mk = |acc: &mut Acc, lo: u64, hi: u64, f: &dyn Fn(u64, &mut Vec<u8>) -> u64| {
        let owned: Vec<Owned> = specs.iter().map(|s| Owned::new(&s.cfg)).collect();
        let mut buf = Vec::with_capacity(300);
        for i in lo..hi {
            let w = f(i, &mut buf);
            // fresh contexts for every case
            let ctxs: Vec<_> = owned.iter().zip(&specs).map(|(o, s)| build(o, &s.history)).collect();
            c09_one(acc, &ctxs, &buf, w, i);
        }
    };
    let t1 = space_t1();
    run.bound("base_shapes", shapes().len() as u64);
    run.sweep_chunked(&t1.name.clone(), t1.n(), |acc, lo, hi| mk(acc, lo, hi, &|i, b| t1.get(i, b).0));
    let t2 = space_t2(thorough);
    run.sweep_chunked(&t2.name.clone(), t2.n(), |acc, lo, hi| mk(acc, lo, hi, &|i, b| t2.get(i, b).0));
    if thorough {
        let t3 = space_t3();
        run.sweep_chunked(&t3.name.clone(), t3.n(), |acc, lo, hi| mk(acc, lo, hi, &|i, b| t3.get(i, b).0));
    }
    run.sweep_chunked("fixed-length rule: command code 0..=255 x request/response x data length 0..=40, right PEC", LENGTH_RULE_N, |acc, lo, hi| {
        mk(acc, lo, hi, &|i, b| {
            length_rule_case(i, b);
            0
        })
    });
    let tr = TruncSpace::new();
    run.sweep_chunked("every truncation of every base shape (raw and with the PEC of the prefix)", tr.n(), |acc, lo, hi| {
        mk(acc, lo, hi, &|i, b| {
            tr.get(i, b);
            1
        })
    });
    // the four SMBus header bytes, which the property says do not matter: every triple of them
    // x all 2^24 values (thorough: all 2^32 values of the four) on three shapes, PEC re-computed
    {
        let bases: Vec<Vec<u8>> = vec![
            forge_request(SRC, DST, 0, false, 0x04, &[0xFF]),
            forge_response(SRC, DST, 0, 0x01, 0, &[0x00, 0x31, 0x00]),
            raw_frame(SRC, DST, T_PCI, &[0x14, 0x14, 1, 2, 3]),
        ];
        const TRIPLES: [[usize; 3]; 4] = [[0, 1, 2], [0, 1, 3], [0, 2, 3], [1, 2, 3]];
        let per: u64 = if thorough { 1u64 << 32 } else { 4 * (1u64 << 24) };
        let name = if thorough { "SMBus header: all 2^32 values of bytes 0..=3 x 3 shapes, PEC re-computed" } else { "SMBus header: every triple of bytes 0..=3 x 2^24 values x 3 shapes, PEC re-computed" };
        let cfg = Cfg::simple(0x23);
        run.sweep_chunked(name, per * bases.len() as u64, |acc, lo, hi| {
            let owned = Owned::new(&cfg);
            let mut buf: Vec<u8> = Vec::with_capacity(32);
            for i in lo..hi {
                let b = &bases[(i / per) as usize];
                let r = i % per;
                buf.clear();
                buf.extend_from_slice(b);
                if thorough {
                    buf[..4].copy_from_slice(&(r as u32).to_be_bytes());
                } else {
                    let t = TRIPLES[(r >> 24) as usize];
                    buf[t[0]] = (r >> 16) as u8;
                    buf[t[1]] = (r >> 8) as u8;
                    buf[t[2]] = r as u8;
                }
                fix_pec(&mut buf);
                let ctxs = [owned.ctx()];
                acc.evals += 1;
                let j = judge_c09(&ctxs, &buf, false);
                acc.trans += 1;
                acc.validated += 1;
                for (k, d) in j.viols {
                    acc.violation(3, k, d, || c09_case(&buf, None));
                }
            }
            acc.outcome2("smbus-header", "visited");
        });
    }
    // histories of fragment-flagged traffic: every sequence of length <= 4 over vendor/SPDM packets
    // with 6 SOM/EOM/sequence-number combinations; the decode outcome must not depend on the history
    {
        let mut alpha: Vec<Vec<u8>> = vec![];
        for t in [T_PCI, T_SPDM] {
            for flags in [0xC8u8, 0x88, 0x08, 0x18, 0x48, 0x58] {
                let mut p = raw_frame(SRC, DST, t, &[0x14, 0x14, 0xA0, 0xA1, flags]);
                p[7] = flags;
                fix_pec(&mut p);
                alpha.push(p);
            }
        }
        // continuation-flagged packets whose type byte is NOT a supported type: a decoder that takes
        // the type of a continuation from remembered state would accept them
        for flags in [0x18u8, 0x58] {
            let mut p = raw_frame(SRC, DST, 0x33, &[0x14, 0x14, 0xA0, 0xA1, flags]);
            p[7] = flags;
            fix_pec(&mut p);
            alpha.push(p);
        }
        let a = alpha.len() as u64;
        let total: u64 = (1..=4u32).map(|d| a.pow(d)).sum();
        let cfg = Cfg::simple(DST);
        // the histories run on a fresh context and on one whose assigned EID equals the packets' destination EID
        let pre: [Vec<Event>; 2] = [vec![], vec![Event::SetEidReq(DST), Event::SetEidResp(DST)]];
        run.sweep_chunked("every sequence of length <= 4 over 14 vendor/SPDM/unsupported-type packets (SOM/EOM/seq combinations) x 2 contexts (fresh; assigned EID = destination EID), decoded: outcome vs a fresh context", total * 2, |acc, lo, hi| {
            let owned = Owned::new(&cfg);
            for k in lo..hi {
                let i = k / 2;
                let mut r = i;
                let mut len = 1u32;
                while r >= a.pow(len) {
                    r -= a.pow(len);
                    len += 1;
                }
                let mut hist = pre[(k % 2) as usize].clone();
                for _ in 0..len {
                    hist.push(Event::Decode(alpha[(r % a) as usize].clone()));
                    r /= a;
                }
                let Some(Event::Decode(last)) = hist.pop() else { continue };
                let ctxs = vec![owned.ctx(), build(&owned, &hist)];
                acc.evals += 1;
                let j = judge_c09(&ctxs, &last, false);
                acc.trans += 2 + hist.len() as u64;
                acc.validated += 1;
                acc.nontrivial(Fnv::default().u64(0x9F).u64(k).finish());
                for (kind, d) in j.viols {
                    acc.violation(len as u64, kind, d, || c09_case(&last, Some(&hist)));
                }
            }
        });
    }
    // cross-kind histories: after any sequence of <= 3 calls of any kind, the decode outcome of
    // every packet of the mixed alphabet equals the outcome on a fresh context (and the reference's)
    {
        let m = mixed_machine();
        let a = m.alphabet.len() as u64;
        let depth = if thorough { 4 } else { 3 };
        let pkts: Vec<Vec<u8>> = m
            .alphabet
            .iter()
            .filter_map(|e| match e {
                Event::Process(p) | Event::Decode(p) => Some(p.clone()),
                _ => None,
            })
            .collect();
        let np = pkts.len() as u64;
        let total: u64 = (0..=depth).map(|d| a.pow(d) * np).sum();
        run.sweep_chunked(&format!("MIXSEQ: every history of length <= {} over {} events of every kind, then each of {} packets decoded: outcome vs a fresh context", depth, a, np), total, |acc, lo, hi| {
            let owned = Owned::new(&m.cfg);
            for i in lo..hi {
                let mut r = i;
                let mut len = 0u32;
                while r >= a.pow(len) * np {
                    r -= a.pow(len) * np;
                    len += 1;
                }
                let last = &pkts[(r % np) as usize];
                r /= np;
                let mut hist = vec![];
                for _ in 0..len {
                    hist.push(m.alphabet[(r % a) as usize].clone());
                    r /= a;
                }
                let ctxs = vec![owned.ctx(), build(&owned, &hist)];
                acc.evals += 1;
                let j = judge_c09(&ctxs, last, false);
                if !j.executed {
                    acc.skipped_known += 1;
                    continue;
                }
                acc.trans += 2 + hist.len() as u64;
                acc.validated += 1;
                if len >= 1 {
                    acc.nontrivial(Fnv::default().u64(0x9E).u64(i).finish());
                }
                for (kind, d) in j.viols {
                    acc.violation(len as u64, kind, d, || json!({"prop": "C09", "check": "decode", "input": hex(last), "state": hist, "cfg": m.cfg}));
                }
            }
        });
    }
    // corruptions that preserve weaker checksums, decoded right after the valid packet was decoded
    // or processed on the same context (anything memoised about the valid one must not vouch for these)
    {
        let corpus = burst_corpus();
        let small: Vec<&Vec<u8>> = corpus.iter().filter(|p| p.len() <= 64).collect();
        let cases: Vec<(usize, Vec<u8>)> = small.iter().enumerate().flat_map(|(k, p)| weak_corruptions(p).into_iter().map(move |q| (k, q))).collect();
        let cfg = Cfg::simple(DST);
        run.sweep_chunked("sum-, XOR-, Fletcher- and multiset-preserving corruptions of every corpus packet <= 64 bytes, after the valid packet was decoded / processed", cases.len() as u64 * 2, |acc, lo, hi| {
            let owned = Owned::new(&cfg);
            for k in lo..hi {
                let (pi, q) = &cases[(k / 2) as usize];
                let orig = small[*pi].clone();
                let rd = ref_decode(&orig);
                if k % 2 == 1 && known_process(&RefEndpoint::new(&cfg), &rd, &orig).is_some() {
                    acc.skipped_known += 1;
                    continue;
                }
                if matches!(rd.class, Class::KnownPanic(_)) {
                    acc.skipped_known += 1;
                    continue;
                }
                let hist = vec![if k % 2 == 0 { Event::Decode(orig) } else { Event::Process(orig) }];
                let ctxs = vec![owned.ctx(), build(&owned, &hist)];
                acc.evals += 1;
                let j = judge_c09(&ctxs, q, false);
                if !j.executed {
                    acc.skipped_known += 1;
                    continue;
                }
                acc.trans += 3;
                acc.validated += 1;
                for (kind, d) in j.viols {
                    acc.violation(3, kind, d, || json!({"prop": "C09", "check": "decode", "input": hex(q), "state": hist, "cfg": cfg}));
                }
            }
        });
    }
    // IPMB-shaped frames (header and data checksums of the neighbouring protocol), decoded by a fresh
    // context and by the device the frame names
    run.sweep_chunked("IPMB-shaped frames: byte0 x 3 command bytes x 8 fourth bytes x lengths 8..=32 x {data checksum, PEC}, on a fresh context and on the addressed device", IPMB_LIKE_N, |acc, lo, hi| {
        let mut buf = Vec::with_capacity(40);
        for i in lo..hi {
            ipmb_like(i, &mut buf);
            let own = Owned::new(&Cfg::simple(buf[0] >> 1));
            let other = Owned::new(&Cfg::simple(0x23));
            let ctxs = vec![other.ctx(), own.ctx()];
            c09_one(acc, &ctxs, &buf, 3, i);
        }
    });
    // run-length and cache-thrashing histories: the decode outcome of the last packet must be the
    // reference's whatever came before
    runseq_for(run, "C09", &|d: &Diff, h: &[Event]| d.aspect == Aspect::Result && matches!(h.last(), Some(Event::Decode(_)) | Some(Event::Process(_))));
    // protocol-shaped content at lengths the library's fixed-length table does not allow: Get MCTP
    // Version Support responses with 0..=4 entries drawn from three real version numbers, Set EID
    // requests/responses and UUID responses one field short or long
    {
        let entries: [[u8; 4]; 3] = [[0xF1, 0xF3, 0xF1, 0x00], [0xF1, 0xF2, 0xF0, 0x00], [0xF1, 0xF0, 0xF0, 0x00]];
        let mut cases: Vec<Vec<u8>> = vec![];
        for n in 0..=4usize {
            for combo in 0..3u32.pow(n as u32) {
                let mut d = vec![n as u8];
                let mut c = combo;
                for _ in 0..n {
                    d.extend_from_slice(&entries[(c % 3) as usize]);
                    c /= 3;
                }
                cases.push(forge_response(SRC, DST, 0, 0x04, 0, &d));
            }
        }
        for extra in [vec![], vec![0x00], vec![0x00, 0x00]] {
            cases.push(forge_response(SRC, DST, 0, 0x01, 0, &[&[0x00u8, 0x09][..], &extra[..]].concat()));
            cases.push(forge_request(SRC, DST, 0, false, 0x01, &[&[0x00u8][..], &extra[..]].concat()));
            cases.push(forge_response(SRC, DST, 0, 0x03, 0, &[&[0xAB; 15][..], &extra[..]].concat()));
        }
        let specs = c09_specs();
        run.seq("protocol-shaped responses/requests at other than the fixed lengths", cases.len() as u64, |acc| {
            let owned: Vec<Owned> = specs.iter().map(|s| Owned::new(&s.cfg)).collect();
            for (i, c) in cases.iter().enumerate() {
                let ctxs: Vec<_> = owned.iter().zip(&specs).map(|(o, s)| build(o, &s.history)).collect();
                c09_one(acc, &ctxs, c, 1, i as u64);
            }
            cases.len() as u64
        });
    }
    // a stride of the t=1 space on every reachable state of the C13 machine
    let reps = reachable_states(run);
    let stride = 61u64;
    let nst = reps.len() as u64;
    let n = t1.n() / stride;
    let cfg = Cfg::simple(DST);
    run.sweep_chunked("1/61 stride of the t=1 space x every reachable state of the C13 machine (vs a fresh context)", n * nst, |acc, lo, hi| {
        let owned = Owned::new(&cfg);
        let mut buf = Vec::with_capacity(300);
        for k in lo..hi {
            let i = (k / nst) * stride;
            let st = &reps[(k % nst) as usize];
            let (w, _) = t1.get(i, &mut buf);
            let ctxs = vec![owned.ctx(), build(&owned, st)];
            acc.evals += 1;
            let j = judge_c09(&ctxs, &buf, false);
            if !j.executed {
                acc.skipped_known += 1;
                continue;
            }
            acc.trans += 2;
            acc.validated += 1;
            acc.outcome2("decode-on-state", j.outcome);
            for (kind, d) in j.viols {
                acc.violation(w + st.len() as u64, kind, d, || c09_case(&buf, Some(st)));
            }
        }
    });
}

pub fn replay_c09(case: &Value) -> Result<ReplayOut, String> {
    let bytes = get_hex(case, "input")?;
    let j = if case["state"].is_array() {
        let st: Vec<Event> = get_de(case, "state")?;
        let cfg: Cfg = if case["cfg"].is_object() { get_de(case, "cfg")? } else { Cfg::simple(DST) };
        let owned = Owned::new(&cfg);
        let ctxs = vec![owned.ctx(), build(&owned, &st)];
        judge_c09(&ctxs, &bytes, true)
    } else {
        let specs = c09_specs();
        let owned: Vec<Owned> = specs.iter().map(|s| Owned::new(&s.cfg)).collect();
        let ctxs: Vec<_> = owned.iter().zip(&specs).map(|(o, s)| build(o, &s.history)).collect();
        judge_c09(&ctxs, &bytes, true)
    };
    Ok(ReplayOut { violations: j.viols.into_iter().map(|(k, d)| format!("{}: {}", k, d)).collect(), observed: j.observed })
}

// ---------------------------------------------------------------------------
// C10
// ---------------------------------------------------------------------------

fn c10_specs() -> Vec<CtxSpec> {
    let mut v = recv_specs();
    // n = 2 mixed sets, one message type, EIDs split between the halves
    v.push(CtxSpec {
        cfg: Cfg { addr: 0x23, msg_types: vec![0x01], vendors: vec![(1, 0x0000_0137, 1), (0, 0xFFFF, 0xFFFF)] },
        history: vec![Event::SetEidReq(0x11), Event::SetEidResp(0x22), Event::Process(forge_request(SRC, 0x23, 0, false, 0x06, &[1]))],
    });
    // n = 3, all IANA, 30 message types, UUID set
    v.push(CtxSpec {
        cfg: Cfg { addr: 0x7F, msg_types: vec![0xFF; 30], vendors: vec![(1, 0xFFFF_FFFF, 0xFFFF), (1, 0, 0), (1, 0x8000_0000, 0x8000)] },
        history: vec![Event::SetUuid(U2)],
    });
    v
}

struct J10 {
    viols: Vec<(&'static str, String)>,
    known: Vec<&'static str>,
    skipped: u64,
    calls: u64,
    observed: String,
}

/// `exec_known`: also execute inputs predicted to lie in a known panic class.
fn judge_c10(spec: &CtxSpec, owned: &Owned, bytes: &[u8], exec_known: bool, want_obs: bool) -> J10 {
    let mut j = J10 { viols: vec![], known: vec![], skipped: 0, calls: 0, observed: String::new() };
    let rd = ref_decode(bytes);
    let r = build_ref(spec);
    let kd = known_decode(&rd);
    let kp = known_process(&r, &rd, bytes);
    let mut obs = vec![];
    // one context per case: probe, decode, process (64-byte buffer), process (128-byte
    // buffer) in this order -- the later calls thereby also run after the earlier ones
    let ctx = build(owned, &spec.history);
    {
        let l = subject::get_length(&ctx, bytes);
        j.calls += 1;
        if let LenOut::Panic(m) = &l {
            j.viols.push(("probe-panic", format!("get_length panicked on {} ({} bytes): {}", hex(bytes), bytes.len(), m)));
        }
        if want_obs {
            obs.push(format!("len={:?}", l));
        }
    }
    if kd.is_some() && !exec_known {
        j.skipped += 1;
    } else {
        let d = subject::decode(&ctx, bytes);
        j.calls += 1;
        if let DecOut::Panic(m) = &d {
            match kd {
                Some(id) if mode_ok(id, m) => j.known.push(id),
                _ => j.viols.push(("decode-panic", format!("decode_packet panicked on {} ({} bytes): {}", hex(bytes), bytes.len(), m))),
            }
        }
        if want_obs {
            obs.push(format!("dec={:?}", d));
        }
    }
    if kp.is_some() && !exec_known {
        j.skipped += 1;
    } else {
        for size in [64usize, 128] {
            if size == 64 && kp.is_some() {
                continue; // one reproduction of a known panic per case is enough
            }
            let mut resp = [0xA5u8; 128];
            let p = subject::process(&ctx, bytes, &mut resp[..size]);
            j.calls += 1;
            if let DecOut::Panic(m) = &p.dec {
                match kp {
                    Some(id) if mode_ok(id, m) => j.known.push(id),
                    _ => j.viols.push(("process-panic", format!("process_packet panicked on {} ({} bytes) with a {}-byte response buffer: {}", hex(bytes), bytes.len(), size, m))),
                }
            }
            if want_obs {
                obs.push(format!("proc{}={:?}", size, p));
            }
        }
    }
    j.observed = obs.join(" ");
    j
}

fn c10_one(acc: &mut Acc, spec: &CtxSpec, owned: &Owned, bytes: &[u8], exec_known: bool, weight: u64, i: u64) {
    acc.evals += 1;
    let sampled = i % 3_000_017 == 29;
    let j = judge_c10(spec, owned, bytes, exec_known, sampled);
    acc.trans += j.calls;
    acc.skipped_known += j.skipped;
    acc.validated += 1;
    if i % 61 == 0 {
        acc.state(crate::engine::fp_bytes(0xA0, bytes));
    }
    if bytes.len() >= 10 && bytes[4] == 0x01 && bytes[8] & 0x80 == 0 && supported_type(bytes[8]) {
        acc.nontrivial(crate::engine::fp_bytes(10, bytes));
    }
    acc.outcome2("c10", if !j.viols.is_empty() { "unexpected-panic" } else if !j.known.is_empty() { "known-panic" } else if j.skipped > 0 { "known-panic-class-not-executed" } else { "returned" });
    for id in &j.known {
        acc.known(id, || json!({"input": hex(bytes), "context": spec}));
    }
    if sampled {
        acc.sample(|| json!({"input": hex(bytes), "observed": j.observed}));
    }
    for (k, d) in j.viols {
        acc.violation(weight + spec.history.len() as u64, k, d, || json!({"prop": "C10", "check": "receive", "spec": spec, "input": hex(bytes)}));
    }
}

pub fn run_c10(run: &mut Run) {
    let thorough = run.tier.thorough();
    run.rule = "the C09 deviation spaces (t=1 on 5 contexts, t=2 on 2 contexts; thorough t=3), the fixed-length walk, every truncation of every base shape (raw and re-PEC'd), all 2^16 strings shorter than 3 bytes and 2^24 prefixes through the probe, the axes Set EID operation x EID (65 536), selector 0..=255, version query 0..=255, instance id x D x rsvd x command, command code x request/response x completion code (131 072), source-EID x SMBus-source naming (65 536), each through get_length, decode_packet and process_packet (64- and 128-byte response buffers) on valid configurations (1, 2, 3, 16 vendor sets; 0, 1, 30 message types) and on every reachable state of the C13 machine; oracle: no call unwinds except inputs in a listed K-C10 class failing in the listed mode; non-trivial = inputs with a supported header".into();
    run.assume("known-panic classes are executed on the first context in the t=1, axis and truncation sweeps and only counted (skipped_known) elsewhere: an unwinding panic costs ~200x a decode");
    run.assume("overflow checks and debug assertions are on in the checked build (profile.release of the harness)");
    let specs = c10_specs();
    let nspec = specs.len() as u64;
    let per_spec_k = |run: &mut Run, name: &str, n: u64, nspecs: u64, exec_known_on_first: bool, f: &(dyn Fn(u64, &mut Vec<u8>) -> u64 + Sync)| {
        run.sweep_chunked(name, n * nspecs, |acc, lo, hi| {
            let owned: Vec<Owned> = specs.iter().map(|s| Owned::new(&s.cfg)).collect();
            let mut buf = Vec::with_capacity(320);
            for k in lo..hi {
                let si = (k % nspecs) as usize;
                let i = k / nspecs;
                let w = f(i, &mut buf);
                c10_one(acc, &specs[si], &owned[si], &buf, exec_known_on_first && si == 0, w, k);
            }
        });
    };
    let per_spec = |run: &mut Run, name: &str, n: u64, nspecs: u64, f: &(dyn Fn(u64, &mut Vec<u8>) -> u64 + Sync)| per_spec_k(run, name, n, nspecs, true, f);
    let t1 = space_t1();
    {
        // the full t=1 space on the fresh and on the dirty context ...
        let two = [0usize, 2];
        run.sweep_chunked(&format!("{} x 2 contexts (fresh, dirty)", t1.name), t1.n() * 2, |acc, lo, hi| {
            let owned: Vec<Owned> = specs.iter().map(|s| Owned::new(&s.cfg)).collect();
            let mut buf = Vec::with_capacity(320);
            for k in lo..hi {
                let si = two[(k % 2) as usize];
                let w = t1.get(k / 2, &mut buf).0;
                c10_one(acc, &specs[si], &owned[si], &buf, si == 0, w, k);
            }
        });
    }
    // ... and the t=1 space of the core shapes on all five
    let t1c = space_t1_core();
    per_spec(run, &format!("{} x {} contexts", t1c.name, nspec), t1c.n(), nspec, &|i, b| t1c.get(i, b).0);
    let t2 = space_t2(thorough);
    per_spec_k(run, &format!("{} x 2 contexts", t2.name), t2.n(), 2, false, &|i, b| t2.get(i, b).0);
    if thorough {
        let t3 = space_t3();
        per_spec_k(run, &format!("{} x 2 contexts", t3.name), t3.n(), 2, false, &|i, b| t3.get(i, b).0);
    }
    per_spec(run, "fixed-length rule walk x contexts", LENGTH_RULE_N, nspec, &|i, b| {
        length_rule_case(i, b);
        0
    });
    let tr = TruncSpace::new();
    per_spec(run, "every truncation of every base shape (raw / re-PEC'd) x contexts", tr.n(), nspec, &|i, b| {
        tr.get(i, b);
        1
    });
    for (ax, (name, n)) in AXES.iter().enumerate() {
        per_spec(run, &format!("axis: {} x contexts", name), *n, nspec, &move |i, b| {
            axis_case(ax, i, b);
            1
        });
    }
    per_spec(run, "all strings of length 0, 1, 2 x contexts", 1 + 256 + 65536, nspec, &|i, b| {
        b.clear();
        if i >= 1 && i <= 256 {
            b.push((i - 1) as u8);
        } else if i > 256 {
            b.push(((i - 257) >> 8) as u8);
            b.push((i - 257) as u8);
        }
        0
    });
    per_spec(run, "all 2^24 three-byte strings x 2 contexts", 1 << 24, 2, &|i, b| {
        b.clear();
        b.extend_from_slice(&[(i >> 16) as u8, (i >> 8) as u8, i as u8]);
        0
    });
    // extreme stored values: every EID 0..=255 stored by a processed Set/Force (forged requests can
    // carry 0x00 and 0xFF) or through either accessor, then every answerable request
    run.sweep_chunked("every EID value 0..=255 stored (Set, Force, request accessor, response accessor) then each of 8 answerable requests", 256 * 4 * 8, |acc, lo, hi| {
        let cfg = Cfg::simple(DST);
        let owned = Owned::new(&cfg);
        let mut buf = Vec::with_capacity(64);
        for k in lo..hi {
            let e = (k % 256) as u8;
            let how = (k / 256) % 4;
            let q = k / 1024;
            let history = vec![match how {
                0 => Event::Process(forge_request(SRC, DST, 0, false, 0x01, &[0, e])),
                1 => Event::Process(forge_request(SRC, DST, 0, false, 0x01, &[1, e])),
                2 => Event::SetEidReq(e),
                _ => Event::SetEidResp(e),
            }];
            let (cmd, data): (u8, &[u8]) = [(0x01u8, &[0u8, 0x21][..]), (0x01, &[1, 0xFE]), (0x01, &[3, 0x21]), (0x02, &[]), (0x03, &[]), (0x04, &[0xFF]), (0x05, &[]), (0x06, &[0])][q as usize];
            buf.clear();
            buf.extend_from_slice(&forge_request(SRC, DST, 0, false, cmd, data));
            let spec = CtxSpec { cfg: cfg.clone(), history };
            c10_one(acc, &spec, &owned, &buf, true, 2, k);
        }
    });
    // histories of non-control traffic with every SOM/EOM flag combination and large payloads
    // (reassembly-style bookkeeping must not overflow): every sequence of length <= 4
    {
        let mut alpha: Vec<Vec<u8>> = vec![];
        for t in [T_PCI, T_SPDM] {
            // SOM/EOM combinations with sequence numbers 0..=3 on the continuations; message bodies of
            // 63 and 64 bytes (transport payload = the 64-byte baseline transmission unit, and one more),
            // 100 and 200 bytes
            for flags in [0xC8u8, 0x88, 0x08, 0x18, 0x28, 0x38, 0x48] {
                for len in [63usize, 64, 100, 200] {
                    let mut p = raw_frame(SRC, DST, t, &vec![0x5Au8; len]);
                    p[7] = flags;
                    fix_pec(&mut p);
                    alpha.push(p);
                }
            }
        }
        let a = alpha.len() as u64;
        let total: u64 = (1..=4u32).map(|d| a.pow(d)).sum();
        run.sweep_chunked("every sequence of length <= 4 over 56 vendor/SPDM packets (7 SOM/EOM/sequence flag combinations x 4 sizes x 2 types)", total, |acc, lo, hi| {
            let cfg = Cfg::simple(DST);
            let owned = Owned::new(&cfg);
            for i in lo..hi {
                let mut r = i;
                let mut len = 1u32;
                while r >= a.pow(len) {
                    r -= a.pow(len);
                    len += 1;
                }
                let mut hist = vec![];
                for k in 0..len {
                    let p = alpha[(r % a) as usize].clone();
                    r /= a;
                    // alternate decode-only and process deliveries in the history
                    hist.push(if k % 2 == 0 { Event::Decode(p) } else { Event::Process(p) });
                }
                let last = match hist.pop().unwrap() {
                    Event::Decode(p) | Event::Process(p) => p,
                    _ => unreachable!(),
                };
                let spec = CtxSpec { cfg: cfg.clone(), history: hist };
                c10_one(acc, &spec, &owned, &last, true, len as u64, i);
            }
        });
    }
    run.sweep_chunked("IPMB-shaped frames through probe, decode and process on the addressed device", IPMB_LIKE_N, |acc, lo, hi| {
        let mut buf = Vec::with_capacity(40);
        for i in lo..hi {
            ipmb_like(i, &mut buf);
            let spec = CtxSpec::fresh(Cfg::simple(buf[0] >> 1));
            let owned = Owned::new(&spec.cfg);
            c10_one(acc, &spec, &owned, &buf, false, 3, i);
        }
    });
    // cross-kind histories: no call of any kind may unwind after any sequence of the others
    stateless(run, "C10", "MIXSEQ (every kind of call on one context)", &mixed_machine(), if thorough { 5 } else { 4 }, &|d: &Diff, _h: &[Event]| d.aspect == Aspect::Panic);
    runseq_for(run, "C10", &|d: &Diff, _h: &[Event]| d.aspect == Aspect::Panic);
    // every reachable state of the C13 machine: axes 0-3 and the truncation space
    let reps = reachable_states(run);
    let cfg = Cfg::simple(DST);
    let nst = reps.len() as u64;
    let state_specs: Vec<CtxSpec> = reps.iter().map(|h| CtxSpec { cfg: cfg.clone(), history: h.clone() }).collect();
    let sub: u64 = AXES[1].1 + AXES[2].1 + AXES[3].1 + tr.n() + 4 * 256;
    run.sweep_chunked("every reachable state of the C13 machine x {selector, version query, instance-id axes, Set EID op x 4 EIDs, every truncation}", sub * nst, |acc, lo, hi| {
        let owned = Owned::new(&cfg);
        let mut buf = Vec::with_capacity(320);
        for k in lo..hi {
            let st = (k % nst) as usize;
            let mut i = k / nst;
            if i < AXES[1].1 {
                axis_case(1, i, &mut buf);
            } else if {
                i -= AXES[1].1;
                i < AXES[2].1
            } {
                axis_case(2, i, &mut buf);
            } else if {
                i -= AXES[2].1;
                i < AXES[3].1
            } {
                axis_case(3, i, &mut buf);
            } else if {
                i -= AXES[3].1;
                i < 4 * 256
            } {
                axis_case(0, ((i / 4) << 8) | [0x01u64, 0x7F, 0xFE, 0x00][(i % 4) as usize], &mut buf);
            } else {
                i -= 4 * 256;
                tr.get(i, &mut buf);
            }
            c10_one(acc, &state_specs[st], &owned, &buf, st == 0, 2, k);
        }
    });
}

pub fn replay_c10(case: &Value) -> Result<ReplayOut, String> {
    if case["check"].as_str() == Some("history") {
        let (diffs, _last, observed) = replay_history(case)?;
        return Ok(ReplayOut { violations: diffs.iter().filter(|d| d.aspect == Aspect::Panic).map(|d| d.text.clone()).collect(), observed });
    }
    let spec: CtxSpec = get_de(case, "spec")?;
    let bytes = get_hex(case, "input")?;
    let owned = Owned::new(&spec.cfg);
    let j = judge_c10(&spec, &owned, &bytes, true, true);
    Ok(ReplayOut { violations: j.viols.into_iter().map(|(k, d)| format!("{}: {}", k, d)).collect(), observed: j.observed })
}

// ---------------------------------------------------------------------------
// C11
// ---------------------------------------------------------------------------

fn c11_specs() -> Vec<CtxSpec> {
    vec![CtxSpec::fresh(Cfg::simple(DST)), enc_specs(DST).swap_remove(2), dirty_spec(0x51)]
}

struct J11 {
    viols: Vec<(&'static str, String)>,
    comparable: bool,
    responded: bool,
    calls: u64,
    observed: String,
}

fn poisoned(size: usize, flavour: u8) -> Vec<u8> {
    (0..size).map(|i| (0xA5u8 ^ (i as u8)) ^ if flavour == 0 { 0 } else { 0xFF }).collect()
}

fn judge_c11(spec: &CtxSpec, owned: &Owned, bytes: &[u8], want_obs: bool) -> J11 {
    let mut j = J11 { viols: vec![], comparable: false, responded: false, calls: 0, observed: String::new() };
    let rd = ref_decode(bytes);
    let r = build_ref(spec);
    if known_process(&r, &rd, bytes).is_some() {
        return j; // K-C10 panic classes: not comparable
    }
    j.comparable = true;
    // twins: the same configuration and history; one decodes, the others process
    let d = subject::decode(&build(owned, &spec.history), bytes);
    let mut runs: Vec<(ProcOut, Vec<u8>, Vec<u8>)> = vec![];
    for fl in 0..2u8 {
        let ctx = build(owned, &spec.history);
        let pre = poisoned(subject::RESP_BUF, fl);
        let mut resp = pre.clone();
        let p = subject::process(&ctx, bytes, &mut resp);
        runs.push((p, pre, resp));
    }
    j.calls = 3;
    if want_obs {
        j.observed = format!("decode={:?} process={:?}/{:?}", d, runs[0].0, runs[1].0);
    }
    let is_request = bytes.len() >= 10 && bytes[8] == 0x00 && bytes[9] & 0x80 != 0;
    for (k, (p, pre, post)) in runs.iter().enumerate() {
        if p.dec != d {
            j.viols.push(("result-differs", format!("process_packet reports {:?} but decode_packet reports {:?} for {}", p.dec, d, hex(bytes))));
            break;
        }
        let should_respond = d.is_ok() && is_request;
        match p.resp_len {
            Some(n) => {
                j.responded = true;
                if !should_respond {
                    j.viols.push(("unexpected-response", format!("a response of {} bytes was reported for {} which is not an accepted control request", n, hex(bytes))));
                }
                if n > post.len() {
                    j.viols.push(("response-length", format!("reported response length {} exceeds the buffer", n)));
                } else if let Some(pos) = (n..post.len()).find(|&i| post[i] != pre[i]) {
                    j.viols.push(("wrote-past-response", format!("byte {} of the response buffer (beyond the reported length {}) was modified (poison #{})", pos, n, k)));
                }
            }
            None => {
                if should_respond {
                    j.viols.push(("no-response", format!("the accepted control request {} was not answered", hex(bytes))));
                }
                if let Some(pos) = (0..post.len()).find(|&i| post[i] != pre[i]) {
                    j.viols.push(("buffer-touched", format!("no response was reported for {} but byte {} of the response buffer was modified", hex(bytes), pos)));
                }
            }
        }
    }
    if let (Some(a), Some(b)) = (runs[0].0.resp_len, runs[1].0.resp_len) {
        if a != b {
            j.viols.push(("response-depends-on-buffer", format!("response length {} with one buffer content, {} with another", a, b)));
        } else if a <= subject::RESP_BUF && runs[0].2[..a] != runs[1].2[..a] {
            let pos = (0..a).find(|&i| runs[0].2[i] != runs[1].2[i]).unwrap();
            j.viols.push(("response-depends-on-buffer", format!("response byte {} depends on the previous buffer contents ({:#04x} vs {:#04x})", pos, runs[0].2[pos], runs[1].2[pos])));
        }
    }
    j
}

fn c11_one(acc: &mut Acc, spec: &CtxSpec, owned: &Owned, bytes: &[u8], weight: u64, i: u64) {
    acc.evals += 1;
    let sampled = i % 2_500_009 == 31;
    let j = judge_c11(spec, owned, bytes, sampled);
    if !j.comparable {
        acc.skipped_known += 1;
        acc.outcome2("c11", "not-comparable(known panic class)");
        return;
    }
    acc.trans += j.calls;
    acc.validated += 1;
    if i % 61 == 0 {
        acc.state(crate::engine::fp_bytes(0xB0, bytes));
    }
    if j.responded {
        acc.nontrivial(crate::engine::fp_bytes(11, bytes));
    }
    acc.outcome2("c11", if j.responded { "responded" } else { "no-response" });
    if sampled {
        acc.sample(|| json!({"input": hex(bytes), "observed": j.observed}));
    }
    for (k, d) in j.viols {
        acc.violation(weight + spec.history.len() as u64, k, d, || json!({"prop": "C11", "check": "twin", "spec": spec, "input": hex(bytes)}));
    }
}

pub fn run_c11(run: &mut Run) {
    let thorough = run.tier.thorough();
    run.rule = "every case of the C09 spaces (t=1 on 3 contexts, t=2 on 1; thorough t=3), the length walk, truncations and the operation/selector axes, run as twins: decode_packet on one context, process_packet on two more built by the same configuration and history with two complementary poisons in a 128-byte response buffer; plus every sequence of length <= 3 over the C13 alphabet with the twin comparison at the last step; oracle: same result; Some(n) iff accepted control request; bytes n.. unchanged; bytes ..n independent of the poison; otherwise no byte changed; non-trivial = cases that produced a response".into();
    run.assume("inputs in a K-C10 panic class are not comparable and are counted, not executed");
    let specs = c11_specs();
    let per_spec = |run: &mut Run, name: &str, n: u64, nspecs: u64, f: &(dyn Fn(u64, &mut Vec<u8>) -> u64 + Sync)| {
        run.sweep_chunked(name, n * nspecs, |acc, lo, hi| {
            let owned: Vec<Owned> = specs.iter().map(|s| Owned::new(&s.cfg)).collect();
            let mut buf = Vec::with_capacity(320);
            for k in lo..hi {
                let si = (k % nspecs) as usize;
                let w = f(k / nspecs, &mut buf);
                c11_one(acc, &specs[si], &owned[si], &buf, w, k);
            }
        });
    };
    let t1 = space_t1();
    {
        // the full t=1 space on the context with an assigned EID ...
        let specs1 = vec![specs[1].clone()];
        let n = t1.n();
        run.sweep_chunked(&format!("{} x the EID-assigned context", t1.name), n, |acc, lo, hi| {
            let owned = Owned::new(&specs1[0].cfg);
            let mut buf = Vec::with_capacity(320);
            for k in lo..hi {
                let w = t1.get(k, &mut buf).0;
                c11_one(acc, &specs1[0], &owned, &buf, w, k);
            }
        });
    }
    // ... and the t=1 space of the core shapes on all three
    let t1c = space_t1_core();
    per_spec(run, &format!("{} x 3 contexts", t1c.name), t1c.n(), 3, &|i, b| t1c.get(i, b).0);
    let t2 = space_t2(thorough);
    per_spec(run, &format!("{} x 1 context", t2.name), t2.n(), 1, &|i, b| t2.get(i, b).0);
    if thorough {
        let t3 = space_t3();
        per_spec(run, &format!("{} x 1 context", t3.name), t3.n(), 1, &|i, b| t3.get(i, b).0);
    }
    per_spec(run, "fixed-length rule walk x 3 contexts", LENGTH_RULE_N, 3, &|i, b| {
        length_rule_case(i, b);
        0
    });
    let tr = TruncSpace::new();
    per_spec(run, "every truncation of every base shape x 3 contexts", tr.n(), 3, &|i, b| {
        tr.get(i, b);
        1
    });
    for ax in 0..4 {
        per_spec(run, &format!("axis: {} x 3 contexts", AXES[ax].0), AXES[ax].1, 3, &move |i, b| {
            axis_case(ax, i, b);
            1
        });
    }
    // a processed request followed by a *response* of the same total length in which one free byte
    // (destination or source EID) takes all 256 values with the PEC re-computed: exactly one value
    // makes the PEC byte equal to the request's (CRC-8 is a bijection in any single byte), so every
    // (length, PEC byte) coincidence between an answered request and a later non-request is met
    {
        let reqs: Vec<Vec<u8>> = vec![
            forge_request(SRC, DST, 0, false, 0x01, &[0, 0x5A]),
            forge_request(SRC, DST, 0, false, 0x04, &[0xFF]),
            forge_request(SRC, DST, 0, false, 0x06, &[0]),
            forge_request(SRC, DST, 3, false, 0x02, &[]),
        ];
        let cfg = Cfg::simple(DST);
        run.sweep("answered request, then a same-length response / vendor message with a free byte over all 256 values (PEC-byte coincidences)", 4 * 3 * 2 * 256, |acc, i| {
            let mut ix = Ix(i);
            let v = ix.take(256) as u8;
            let pos = [5usize, 6][ix.take(2) as usize];
            let kind = ix.take(3);
            let r = &reqs[ix.take(4) as usize];
            let l = r.len();
            let mut second = match kind {
                0 if l >= 13 => forge_response(SRC, DST, 0, 0x05, 0, &vec![0u8; l - 13]),
                1 if l >= 13 => forge_response(SRC, DST, 0, 0x06, 0, &vec![0u8; l - 13]),
                _ => raw_frame(SRC, DST, T_PCI, &vec![0x11u8; l - 10]),
            };
            second[pos] = v;
            fix_pec(&mut second);
            let spec = CtxSpec { cfg: cfg.clone(), history: vec![Event::Process(r.clone())] };
            let owned = Owned::new(&cfg);
            c11_one(acc, &spec, &owned, &second, 2, i);
        });
    }
    // histories: every sequence of length <= 3 over the C13 alphabet and over the mixed-kind alphabet,
    // twin comparison at the last step
    let mixed = mixed_machine();
    for (aname, alphabet, cfg) in [("the C13 alphabet", sigma13(), Cfg::simple(DST)), ("the MIXSEQ alphabet (every kind of call)", mixed.alphabet.clone(), mixed.cfg.clone())] {
    let a = alphabet.len() as u64;
    let depth = if thorough { 4 } else { 3 };
    let total: u64 = (1..=depth).map(|d| a.pow(d)).sum();
    run.sweep_chunked(&format!("every sequence of length 1..={} over {}, twins at the last step", depth, aname), total, |acc, lo, hi| {
        let owned = Owned::new(&cfg);
        for i in lo..hi {
            let mut r = i;
            let mut len = 1u32;
            while r >= a.pow(len) {
                r -= a.pow(len);
                len += 1;
            }
            let mut hist = vec![];
            for _ in 0..len {
                hist.push(alphabet[(r % a) as usize].clone());
                r /= a;
            }
            let last = hist.pop().unwrap();
            if let Event::Process(p) | Event::Decode(p) = &last {
                let spec = CtxSpec { cfg: cfg.clone(), history: hist };
                c11_one(acc, &spec, &owned, p, len as u64, i);
            } else {
                acc.evals += 1;
            }
        }
    });
    }
}

pub fn replay_c11(case: &Value) -> Result<ReplayOut, String> {
    let spec: CtxSpec = get_de(case, "spec")?;
    let bytes = get_hex(case, "input")?;
    let owned = Owned::new(&spec.cfg);
    let j = judge_c11(&spec, &owned, &bytes, true);
    Ok(ReplayOut { violations: j.viols.into_iter().map(|(k, d)| format!("{}: {}", k, d)).collect(), observed: j.observed })
}

// ---------------------------------------------------------------------------
// C02
// ---------------------------------------------------------------------------

fn wrong_pec(ev: &Event) -> bool {
    match ev {
        Event::Process(p) | Event::Decode(p) => !p.is_empty() && crc8(&p[..p.len() - 1]) != p[p.len() - 1],
        _ => false,
    }
}

/// C02 claims every aspect of a node once a wrong-PEC input is part of its history.
pub fn c02_filter(d: &Diff, h: &[Event]) -> bool {
    d.aspect != Aspect::Panic && h.iter().any(wrong_pec)
}

fn c02_specs() -> Vec<CtxSpec> {
    vec![CtxSpec::fresh(Cfg::simple(DST)), enc_specs(DST).swap_remove(2)]
}

/// Full check of one wrong-PEC input on one context: decode-only and process,
/// each followed by the probe battery, in lock-step with the reference.
fn judge_c02(spec: &CtxSpec, owned: &Owned, bytes: &[u8]) -> (Vec<String>, u64, String) {
    judge_c02_after(spec, owned, bytes, None)
}

/// `orig`: the valid packet the input was derived from.  When given, the input is
/// also delivered to a context that has just probed and processed that valid
/// packet (a corrupted retransmission: same header prefix, same length, same
/// receive buffer).
fn judge_c02_after(spec: &CtxSpec, owned: &Owned, bytes: &[u8], orig: Option<&[u8]>) -> (Vec<String>, u64, String) {
    let (mut v, mut calls, mut observed) = judge_c02_in(spec, owned, bytes);
    if let Some(o) = orig {
        if o.len() >= 3 {
            let mut s2 = spec.clone();
            s2.history.push(Event::GetLength(o[..3].to_vec()));
            let rd = ref_decode(o);
            if known_process(&build_ref(spec), &rd, o).is_none() {
                s2.history.push(Event::Process(o.to_vec()));
            }
            let (v2, c2, o2) = judge_c02_in(&s2, owned, bytes);
            calls += c2;
            observed.push_str(&o2);
            for d in v2 {
                v.push(format!("after probing and processing the valid packet {}: {}", hex(o), d));
            }
        }
    }
    (v, calls, observed)
}

fn judge_c02_in(spec: &CtxSpec, owned: &Owned, bytes: &[u8]) -> (Vec<String>, u64, String) {
    let mut v = vec![];
    let mut calls = 0;
    let mut observed = String::new();
    let pk = probes(&spec.cfg);
    for ev in [Event::Decode(bytes.to_vec()), Event::Process(bytes.to_vec())] {
        let m = Machine { cfg: spec.cfg.clone(), init: spec.history.clone(), alphabet: vec![ev.clone()] };
        let node = m.eval(owned, &pk, &[0]);
        calls += node.calls;
        observed.push_str(&format!("{:?} eids {:?}; ", node.last_obs, node.eids));
        let h = [ev];
        for d in node.diffs.iter().filter(|d| c02_filter(d, &h)) {
            v.push(d.text.clone());
        }
    }
    (v, calls, observed)
}

/// Cheap check (t = 2): not accepted, buffer untouched, EID cells unchanged.
fn judge_c02_cheap(spec: &CtxSpec, owned: &Owned, bytes: &[u8]) -> (Vec<String>, u64) {
    let mut v = vec![];
    let r = build_ref(spec);
    let ctx = build(owned, &spec.history);
    let d = subject::decode(&ctx, bytes);
    if d.is_ok() {
        v.push(format!("decode_packet accepted {} whose PEC is wrong: {:?}", hex(bytes), d));
    }
    let pre = poisoned(subject::RESP_BUF, 0);
    let mut resp = pre.clone();
    let p = subject::process(&ctx, bytes, &mut resp);
    if p.dec.is_ok() {
        v.push(format!("process_packet accepted {} whose PEC is wrong: {:?}", hex(bytes), p));
    }
    if resp != pre {
        v.push(format!("process_packet modified the response buffer for {} whose PEC is wrong", hex(bytes)));
    }
    use libmctp::mctp_traits::SMBusMCTPRequestResponse;
    let (a, b) = (ctx.get_request().get_eid(), ctx.get_response().get_eid());
    if (a, b) != (r.eid_req, r.eid_resp) {
        v.push(format!("EID cells are {:#04x}/{:#04x} after the wrong-PEC input {}, they were {:#04x}/{:#04x}", a, b, hex(bytes), r.eid_req, r.eid_resp));
    }
    (v, 2)
}

fn c02_alphabet() -> Vec<Event> {
    let rq = |cmd: u8, d: &[u8]| Event::Process(forge_request(SRC, DST, 0, false, cmd, d));
    let good = forge_request(SRC, DST, 0, false, 0x01, &[0, 0x33]);
    let fl = |pos: usize, mask: u8| {
        let mut p = good.clone();
        p[pos] ^= mask;
        Event::Process(p)
    };
    vec![
        rq(0x01, &[0, 0x01]),
        rq(0x01, &[1, 0x80]),
        rq(0x01, &[3, 0x55]),
        rq(0x02, &[]),
        rq(0x03, &[]),
        rq(0x06, &[0]),
        Event::SetEidResp(0x05),
        fl(11, 0x01),             // operation byte: Set -> Force, stale PEC
        fl(12, 0x40),             // EID byte
        fl(10, 0x03),             // command byte: Set EID -> Get EID
        fl(good.len() - 1, 0x80), // PEC byte
        Event::Decode({
            let mut p = good.clone();
            p[12] ^= 0x01;
            p
        }),
    ]
}

pub fn run_c02(run: &mut Run) {
    let thorough = run.tier.thorough();
    run.rule = "(a) every burst of <= 8 consecutive bits (128 patterns x every start bit) on every packet of the corpus (every encoder output, forged answerable requests, vendor/SPDM bodies of 0,1,16,64,249 bytes) on 2 contexts, decode-only and processed, each followed by the probe battery; (b) every wrong-PEC case of the t=1 space (full check) and of the t=2 space (not accepted, buffer untouched, EID cells unchanged); (c) histories: 12-event alphabet with four corrupted Set Endpoint ID variants, every sequence of length <= 4, BFS to fixpoint, and every burst corruption of a valid Set EID from every reachable state; oracle: never Ok, no response byte, EIDs and every later answer as the reference endpoint whose state did not move; non-trivial = wrong-PEC inputs with a supported header".into();
    run.assume("the reference CRC asserts for every burst case that the corruption is detectable (crc8 != 0) before it is used");
    run.assume("a panic counts as non-acceptance here (C10 decides whether it is allowed); the state-unchanged half is still checked after it");
    let specs = c02_specs();
    // (a) bursts
    let corpus = burst_corpus();
    let offs: Vec<u64> = {
        let mut o = vec![0u64];
        for p in &corpus {
            o.push(o.last().unwrap() + p.len() as u64 * 8 * 128);
        }
        o
    };
    run.bound("burst_corpus_packets", corpus.len() as u64);
    let nb = *offs.last().unwrap();
    run.sweep_chunked("every <= 8-bit burst at every bit offset of every corpus packet x 2 contexts", nb * 2, |acc, lo, hi| {
        let owned: Vec<Owned> = specs.iter().map(|s| Owned::new(&s.cfg)).collect();
        for k in lo..hi {
            let si = (k % 2) as usize;
            let i = k / 2;
            let pi = match offs.binary_search(&i) {
                Ok(x) => x,
                Err(x) => x - 1,
            };
            let r = i - offs[pi];
            let pattern = 0x80 | (r % 128) as u8;
            let start = (r / 128) as usize;
            let mut p = corpus[pi].clone();
            acc.evals += 1;
            if !apply_burst(&mut p, start, pattern) {
                continue;
            }
            if crc8(&p) == 0 {
                // cannot happen for CRC-8 and bursts of <= 8 bits; if it does the reference is wrong
                acc.violation(0, "machinery", format!("reference CRC does not detect burst {:#04x}@{} on {}", pattern, start, hex(&corpus[pi])), || json!({"prop": "C02", "check": "none"}));
                continue;
            }
            let (v, calls, _) = judge_c02_after(&specs[si], &owned[si], &p, Some(&corpus[pi]));
            acc.trans += calls;
            acc.validated += 1;
            acc.nontrivial(crate::engine::fp_bytes(2, &p));
            if k % 31 == 0 {
                acc.state(crate::engine::fp_bytes(0x20, &p));
            }
            acc.outcome2("burst", if v.is_empty() { "rejected-state-unchanged" } else { "violation" });
            if k % 700_001 == 5 {
                acc.sample(|| json!({"valid": hex(&corpus[pi]), "burst_pattern": pattern, "start_bit": start, "corrupted": hex(&p)}));
            }
            for d in v {
                acc.violation(pattern.count_ones() as u64, "burst", format!("burst {:#04x} at bit {} of {}: {}", pattern, start, hex(&corpus[pi]), d), || json!({"prop": "C02", "check": "input", "spec": specs[si], "input": hex(&p), "orig": hex(&corpus[pi])}));
            }
        }
    });
    // (a') corruptions that preserve weaker checksums (byte sum, XOR, Fletcher sums, byte multiset)
    {
        let small: Vec<&Vec<u8>> = corpus.iter().filter(|p| p.len() <= 64).collect();
        let cases: Vec<(usize, Vec<u8>)> = small.iter().enumerate().flat_map(|(k, p)| weak_corruptions(p).into_iter().map(move |q| (k, q))).collect();
        run.bound("weak_checksum_preserving_corruptions", cases.len() as u64);
        run.sweep_chunked("sum-, XOR-, Fletcher- and multiset-preserving corruptions of every corpus packet <= 64 bytes x 2 contexts (incl. after the valid packet)", cases.len() as u64 * 2, |acc, lo, hi| {
            let owned: Vec<Owned> = specs.iter().map(|s| Owned::new(&s.cfg)).collect();
            for k in lo..hi {
                let si = (k % 2) as usize;
                let (pi, q) = &cases[(k / 2) as usize];
                acc.evals += 1;
                let (v, calls, _) = judge_c02_after(&specs[si], &owned[si], q, Some(small[*pi]));
                acc.trans += calls;
                acc.validated += 1;
                acc.nontrivial(crate::engine::fp_bytes(0x2E, q));
                acc.outcome2("weak-checksum", if v.is_empty() { "rejected-state-unchanged" } else { "violation" });
                for d in v {
                    acc.violation(3, "weak-checksum-preserving", d, || json!({"prop": "C02", "check": "input", "spec": specs[si], "input": hex(q), "orig": hex(small[*pi])}));
                }
            }
        });
    }
    // (a'') packets from a sender that computes the PEC differently (over the wrong range, with another
    // initial value, inverted, reflected), as runs of 0..=8 such packets followed by one more: no number
    // of consistent mistakes may make the endpoint adopt the sender's rule
    {
        fn alt_pec(kind: u64, p: &[u8]) -> u8 {
            let n = p.len();
            let refl = |b: u8| b.reverse_bits();
            match kind {
                0 => crc8(&p[1..n - 1]),
                1 => crc8(&p[..n - 2]),
                2 => crc8(&p[4..n - 1]),
                3 => !crc8(&p[..n - 1]),
                4 => crc8(&[&[0xFFu8][..], &p[..n - 1]].concat()),
                5 => refl(crc8(&p[..n - 1].iter().map(|b| refl(*b)).collect::<Vec<u8>>())),
                _ => p[..n - 1].iter().fold(0u8, |a, b| a.wrapping_add(*b)).wrapping_neg(),
            }
        }
        run.sweep("senders with a different PEC rule (7 rules) x runs of 0..=8 distinct packets, then one more, x 2 contexts", 7 * 9 * 2, |acc, i| {
            let mut ix = Ix(i);
            let si = ix.take(2) as usize;
            let r = ix.take(9);
            let kind = ix.take(7);
            let mk = |e: u8, iid: u8| {
                let mut p = forge_request(SRC, DST, iid, false, 0x01, &[0, e]);
                let n = p.len();
                p[n - 1] = alt_pec(kind, &p);
                p
            };
            let mut spec = specs[si].clone();
            for j in 0..r {
                spec.history.push(Event::Process(mk(0x60 + j as u8, j as u8)));
            }
            let last = mk(0x77, 9);
            acc.evals += 1;
            if crc8(&last) == 0 || spec.history.iter().any(|e| matches!(e, Event::Process(p) if crc8(&p[..]) == 0)) {
                return; // the alternative rule happens to agree with the real one for this packet
            }
            let owned = Owned::new(&spec.cfg);
            let (v, calls, _) = judge_c02(&spec, &owned, &last);
            acc.trans += calls;
            acc.validated += 1;
            acc.nontrivial(Fnv::default().u64(0x2AF).u64(i).finish());
            for d in v {
                acc.violation(r + 1, "alternative-pec-rule", format!("after {} packets with the same wrong PEC rule: {}", r, d), || json!({"prop": "C02", "check": "input", "spec": spec, "input": hex(&last)}));
            }
        });
    }
    // (b) wrong-PEC cases of the deviation spaces
    let t1 = space_t1();
    run.sweep_chunked(&format!("wrong-PEC cases of [{}] x 2 contexts, cheap check", t1.name), t1.n() * 2, |acc, lo, hi| {
        let owned: Vec<Owned> = specs.iter().map(|s| Owned::new(&s.cfg)).collect();
        let mut buf = Vec::with_capacity(320);
        for k in lo..hi {
            let si = (k % 2) as usize;
            let (w, _) = t1.get(k / 2, &mut buf);
            acc.evals += 1;
            if buf.is_empty() || crc8(&buf) == 0 {
                acc.outcome2("t1", "pec-right(out of scope)");
                continue;
            }
            // the full check (probe battery after decode-only and after process) on the context with
            // an assigned EID; the cheap check (not accepted, buffer untouched, EID cells unchanged)
            // on the fresh one and for the known decode-panic classes (two unwinding panics per call)
            let known = matches!(ref_decode(&buf).class, Class::KnownPanic(_));
            if known && si == 0 {
                acc.skipped_known += 1;
                continue;
            }
            let (v, calls) = judge_c02_cheap(&specs[si], &owned[si], &buf);
            acc.trans += calls;
            acc.validated += 1;
            if buf.len() >= 10 && buf[4] == 0x01 && buf[8] & 0x80 == 0 && supported_type(buf[8]) {
                acc.nontrivial(crate::engine::fp_bytes(3, &buf));
            }
            acc.outcome2("t1", if v.is_empty() { "rejected-state-unchanged" } else { "violation" });
            for d in v {
                acc.violation(w, "wrong-pec", d, || json!({"prop": "C02", "check": "input", "spec": specs[si], "input": hex(&buf)}));
            }
        }
    });
    let t1c = space_t1_core();
    run.sweep_chunked(&format!("wrong-PEC cases of [{}] x 2 contexts, full check (probe battery)", t1c.name), t1c.n() * 2, |acc, lo, hi| {
        let owned: Vec<Owned> = specs.iter().map(|s| Owned::new(&s.cfg)).collect();
        let mut buf = Vec::with_capacity(320);
        for k in lo..hi {
            let si = (k % 2) as usize;
            let (w, _) = t1c.get(k / 2, &mut buf);
            acc.evals += 1;
            if buf.is_empty() || crc8(&buf) == 0 {
                continue;
            }
            if matches!(ref_decode(&buf).class, Class::KnownPanic(_)) && si == 0 {
                acc.skipped_known += 1;
                continue;
            }
            let orig = t1c.base_of(k / 2).to_vec();
            let (v, calls, _) = judge_c02_after(&specs[si], &owned[si], &buf, Some(&orig));
            acc.trans += calls;
            acc.validated += 1;
            acc.outcome2("t1-core", if v.is_empty() { "rejected-state-unchanged" } else { "violation" });
            for d in v {
                acc.violation(w, "wrong-pec", d, || json!({"prop": "C02", "check": "input", "spec": specs[si], "input": hex(&buf), "orig": hex(&orig)}));
            }
        }
    });
    let t2 = space_t2(thorough);
    run.sweep_chunked(&format!("wrong-PEC cases of [{}], cheap check", t2.name), t2.n(), |acc, lo, hi| {
        let owned = Owned::new(&specs[1].cfg);
        let mut buf = Vec::with_capacity(320);
        for k in lo..hi {
            let (w, _) = t2.get(k, &mut buf);
            acc.evals += 1;
            if crc8(&buf) == 0 {
                continue;
            }
            // known decode-panic classes: two unwinding panics per case; t=1 already walks them
            if matches!(ref_decode(&buf).class, Class::KnownPanic(_)) {
                acc.skipped_known += 1;
                continue;
            }
            let (v, calls) = judge_c02_cheap(&specs[1], &owned, &buf);
            acc.trans += calls;
            acc.validated += 1;
            for d in v {
                acc.violation(w, "wrong-pec", d, || json!({"prop": "C02", "check": "input", "spec": specs[1], "input": hex(&buf)}));
            }
        }
    });
    // (c) histories
    let m = Machine { cfg: Cfg::simple(DST), init: vec![], alphabet: c02_alphabet() };
    stateless(run, "C02", "12-event alphabet with corrupted Set EID variants", &m, if thorough { 5 } else { 4 }, &c02_filter);
    stateless(run, "C02", "MIXSEQ (every kind of call on one context)", &mixed_machine(), if thorough { 5 } else { 4 }, &c02_filter);
    runseq_for(run, "C02", &c02_filter);
    let st = bfs(run, "C02", "12-event alphabet with corrupted Set EID variants", &m, &c02_filter, 100_000);
    let reps = st.reps.clone();
    let valid = forge_request(SRC, DST, 0, false, 0x01, &[0, 0x33]);
    let per = valid.len() as u64 * 8 * 128;
    let cfg = Cfg::simple(DST);
    run.sweep_chunked("every reachable state x every burst corruption of a valid Set EID(Set, 0x33)", per * reps.len() as u64, |acc, lo, hi| {
        let owned = Owned::new(&cfg);
        for k in lo..hi {
            let st = &reps[(k / per) as usize];
            let r = k % per;
            let pattern = 0x80 | (r % 128) as u8;
            let start = (r / 128) as usize;
            let mut p = valid.clone();
            acc.evals += 1;
            if !apply_burst(&mut p, start, pattern) {
                continue;
            }
            let spec = CtxSpec { cfg: cfg.clone(), history: st.clone() };
            let (v, calls, _) = judge_c02(&spec, &owned, &p);
            acc.trans += calls;
            acc.validated += 1;
            acc.nontrivial(Fnv::default().u64(0x2C).u64(k).finish());
            for d in v {
                acc.violation(st.len() as u64 + 1, "burst-in-state", d, || json!({"prop": "C02", "check": "input", "spec": spec, "input": hex(&p)}));
            }
        }
    });
}

pub fn replay_c02(case: &Value) -> Result<ReplayOut, String> {
    match get_str(case, "check")? {
        "input" => {
            let spec: CtxSpec = get_de(case, "spec")?;
            let bytes = get_hex(case, "input")?;
            let owned = Owned::new(&spec.cfg);
            let orig = if case["orig"].is_string() { Some(get_hex(case, "orig")?) } else { None };
            let (mut v, _, observed) = judge_c02_after(&spec, &owned, &bytes, orig.as_deref());
            let (v2, _) = judge_c02_cheap(&spec, &owned, &bytes);
            for d in v2 {
                if !v.contains(&d) {
                    v.push(d);
                }
            }
            Ok(ReplayOut { violations: v, observed })
        }
        "history" => {
            let (diffs, _last, observed) = replay_history(case)?;
            let history: Vec<Event> = get_de(case, "history")?;
            Ok(ReplayOut { violations: diffs.iter().filter(|d| c02_filter(d, &history)).map(|d| d.text.clone()).collect(), observed })
        }
        "history-pair" => {
            let (same, observed) = replay_pair(case)?;
            Ok(ReplayOut { violations: if same { vec![] } else { vec!["the two histories are observed differently".into()] }, observed })
        }
        o => Err(format!("unknown check {}", o)),
    }
}
