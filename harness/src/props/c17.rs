//! C17 — the length probe is a function of the first three bytes only.
use super::common::*;
use super::*;
use crate::engine::ReplayOut;
use crate::refmodel::*;
use crate::subject::{self, LenOut, Owned};
use crate::types::*;
use serde_json::{json, Value};

fn expect(p: &[u8]) -> LenOut {
    match ref_get_length(p) {
        Some(n) => LenOut::Ok(n),
        None => LenOut::Err { ty: T_INVALID, err: EK::Unknown },
    }
}

/// The oracle for one input on one context: exactly Ok(b2+4) or Err with
/// message type Invalid (the error detail is not constrained by the property).
fn judge_one(got: &LenOut, input: &[u8]) -> Option<String> {
    let exp = expect(input);
    match (&exp, got) {
        (LenOut::Ok(a), LenOut::Ok(b)) if a == b => None,
        (LenOut::Err { .. }, LenOut::Err { ty, .. }) if *ty == T_INVALID => None,
        _ => Some(format!("get_length({} bytes: {}..) = {:?}, expected {:?}", input.len(), hex(&input[..input.len().min(4)]), got, exp)),
    }
}

fn continuation(kind: u64, prefix: &[u8], out: &mut Vec<u8>) {
    out.clear();
    out.extend_from_slice(prefix);
    match kind {
        0 => {}
        1 => out.extend_from_slice(&[0x00; 9]),
        2 => out.extend_from_slice(&[0xFF; 9]),
        3 => out.extend((0..300).map(|i| (i as u8).wrapping_mul(13).wrapping_add(7))),
        // a continuation that disagrees with the prefix about everything: a second
        // SMBus header with another command code and count
        _ => out.extend_from_slice(&[0x0F, 0x0F, 0x0F, 0x01, 0x00]),
    }
}

fn case_json(spec_ix: usize, input: &[u8]) -> Value {
    json!({"prop": "C17", "check": "probe", "ctx": spec_ix, "input": hex(input)})
}

/// Two contexts: a fresh one, and one with another address/configuration whose
/// history already contains traffic and *earlier probes* (a valid header that
/// announced a long packet, then a rejected one) -- so every case on it is also
/// "a probe after other probes".  Contexts are rebuilt for every case: nothing
/// is shared between cases.
fn specs() -> Vec<CtxSpec> {
    vec![
        CtxSpec::fresh(Cfg::simple(0x23)),
        CtxSpec {
            cfg: Cfg { addr: 0x0F, msg_types: vec![0x0F, 0x7E], vendors: vec![(1, 0x0F0F_0F0F, 0x0F0F), (0, 0x0F0F, 0x0F)] },
            history: vec![
                Event::Process(set_eid_req(0x10, 0x0F, 0, 0x0F)),
                Event::GetLength(vec![0x46, 0x0F, 0xF0, 0x21]),
                Event::GetLength(vec![0x46, 0x0E, 0x11]),
                Event::GetLength(vec![0x1E, 0x0F, 0x08, 0x21, 0x01, 0x00]),
            ],
        },
    ]
}

/// Two more histories, run on every prefix presented alone: a probe followed by
/// a decode that fails its PEC check (an aborted transfer), and a decoded first
/// fragment of a multi-packet message (SOM=1, EOM=0).
fn history_specs() -> Vec<CtxSpec> {
    let good = forge_request(0x10, 0x23, 0, false, 0x02, &[]);
    let mut bad = good.clone();
    let n = bad.len();
    bad[n - 1] ^= 0x01;
    let mut frag = crate::props::dec::raw_frame(0x10, 0x23, T_PCI, &[0x14, 0x14, 1, 2]);
    frag[7] = 0x88;
    fix_pec(&mut frag);
    vec![
        CtxSpec { cfg: Cfg::simple(0x23), history: vec![Event::GetLength(good[..3].to_vec()), Event::Decode(bad.clone())] },
        CtxSpec { cfg: Cfg::simple(0x23), history: vec![Event::GetLength(good[..3].to_vec()), Event::Process(bad)] },
        // a packet that decoded / was processed successfully (anything remembered about an accepted
        // header must not answer for a different one)
        CtxSpec { cfg: Cfg::simple(0x23), history: vec![Event::Decode(good.clone())] },
        CtxSpec { cfg: Cfg::simple(0x23), history: vec![Event::Process(good.clone()), Event::Decode(good.clone())] },
        CtxSpec { cfg: Cfg::simple(0x23), history: vec![Event::Decode(frag.clone())] },
        CtxSpec { cfg: Cfg::simple(0x23), history: vec![Event::Process(frag), Event::GetLength(good[..3].to_vec())] },
    ]
}

pub fn run(run: &mut Run) {
    run.rule = "all 2^24 three-byte prefixes x {alone, +9x00, +9xFF, +second header} on two contexts rebuilt for every case (fresh; address 0x0F with a processed Set EID and three earlier probes in its history), 300-byte continuation for byte0=0x46, every string shorter than 3 bytes; non-trivial = byte1==0x0F (the accepting branch)".into();
    run.bound("prefixes", 1u64 << 24);
    run.bound("presentations", 4);
    run.bound("contexts", 2);
    run.bound("short_inputs", 1 + 256 + 65536);
    run.assume("continuations are five fixed shapes, not all byte strings: independence from later bytes is shown by agreement across them");
    let specs = specs();
    let pres: u64 = 4;
    run.sweep_chunked("prefix x presentation x context", (1u64 << 24) * pres, |acc, lo, hi| {
        let owned: Vec<Owned> = specs.iter().map(|s| Owned::new(&s.cfg)).collect();
        let mut buf = Vec::with_capacity(320);
        for i in lo..hi {
            let ctxs: Vec<_> = owned.iter().zip(&specs).map(|(o, s)| build(o, &s.history)).collect();
            let pfx = (i / pres) as u32;
            let kind = match i % pres {
                3 => 4,
                k => k,
            };
            let p3 = [(pfx >> 16) as u8, (pfx >> 8) as u8, pfx as u8];
            continuation(kind, &p3, &mut buf);
            acc.evals += 1;
            for (ci, ctx) in ctxs.iter().enumerate() {
                let got = subject::get_length(ctx, &buf);
                acc.trans += 1;
                acc.validated += 1;
                if let Some(d) = judge_one(&got, &buf) {
                    acc.violation(kind, "probe", d, || case_json(ci, &buf));
                }
            }
            if p3[1] == 0x0F {
                acc.nontrivial(i);
                if kind == 0 {
                    acc.state(pfx as u64);
                }
            }
            if i % 3_000_017 == 5 {
                acc.sample(|| json!({"input": hex(&buf), "expected": format!("{:?}", expect(&buf))}));
            }
        }
        acc.outcome("prefix.visited");
    });
    let hspecs = history_specs();
    run.bound("history_contexts", hspecs.len() as u64);
    run.sweep_chunked("all 2^24 prefixes presented alone on 6 contexts with probe/decode histories (failed-PEC transfer, accepted packet, first fragment)", 1u64 << 24, |acc, lo, hi| {
        let owned: Vec<Owned> = hspecs.iter().map(|s| Owned::new(&s.cfg)).collect();
        for i in lo..hi {
            let p3 = [(i >> 16) as u8, (i >> 8) as u8, i as u8];
            acc.evals += 1;
            for (ci, (o, s)) in owned.iter().zip(&hspecs).enumerate() {
                let ctx = build(o, &s.history);
                let got = subject::get_length(&ctx, &p3);
                acc.trans += 1 + s.history.len() as u64;
                acc.validated += 1;
                if let Some(d) = judge_one(&got, &p3) {
                    acc.violation(1, "probe-after-history", d, || json!({"prop": "C17", "check": "probe-history", "spec": s, "input": hex(&p3), "ctx": ci}));
                }
            }
        }
        acc.outcome2("history", "visited");
    });
    // probes after a *deviating* transfer: every packet of the t = 1 deviation space of the core
    // shapes (every byte x 256 values, PEC stale and re-computed) is decoded or processed first;
    // then prefixes of that packet and of the undeviated packet (3, 4, 9 bytes, whole) are probed.
    // Whatever the earlier transfer looked like -- a byte count that does not match, another
    // source, a right or a wrong PEC -- the probe depends on the three bytes it is shown.
    {
        let sp = crate::props::dec::space_t1_core();
        run.sweep_chunked("t=1 deviation packet decoded/processed, then prefixes (3, 4, 9, all) of it and of its base packet probed", sp.n() * 2, |acc, lo, hi| {
            let cfg = Cfg::simple(crate::props::dec::DST);
            let owned = Owned::new(&cfg);
            let mut buf = Vec::with_capacity(300);
            for i in lo..hi {
                let processed = i % 2 == 1;
                sp.get(i / 2, &mut buf);
                let base = sp.base_of(i / 2).to_vec();
                let first = if processed { Event::Process(buf.clone()) } else { Event::Decode(buf.clone()) };
                let ctx = build(&owned, std::slice::from_ref(&first));
                acc.evals += 1;
                acc.trans += 1;
                for src in [&buf, &base] {
                    for k in [3usize, 4, 9, src.len()] {
                        if k > src.len() || k < 3 {
                            continue;
                        }
                        let got = subject::get_length(&ctx, &src[..k]);
                        acc.trans += 1;
                        acc.validated += 1;
                        if let Some(d) = judge_one(&got, &src[..k]) {
                            let spec = CtxSpec { cfg: cfg.clone(), history: vec![first.clone()] };
                            acc.violation(2, "probe-after-deviating-transfer", d, || json!({"prop": "C17", "check": "probe-history", "spec": spec, "input": hex(&src[..k]), "ctx": 0}));
                        }
                    }
                }
                if i % 4099 == 0 {
                    acc.state(Fnv::default().u64(0x17D).u64(i).finish());
                    acc.nontrivial(Fnv::default().u64(0x17E).u64(i).finish());
                }
            }
            acc.outcome2("after-deviating-transfer", "visited");
        });
    }
    // IPMB-shaped frames (whole frames, not prefixes) on the device they name and on another one
    run.sweep_chunked("IPMB-shaped frames through the probe, on the addressed device and on another", crate::props::dec::IPMB_LIKE_N, |acc, lo, hi| {
        let mut buf = Vec::with_capacity(40);
        for i in lo..hi {
            crate::props::dec::ipmb_like(i, &mut buf);
            acc.evals += 1;
            for a in [buf[0] >> 1, 0x23] {
                let owned = Owned::new(&Cfg::simple(a));
                let ctx = owned.ctx();
                let got = subject::get_length(&ctx, &buf);
                acc.trans += 1;
                acc.validated += 1;
                if let Some(d) = judge_one(&got, &buf) {
                    let spec = CtxSpec::fresh(Cfg::simple(a));
                    acc.violation(3, "probe-ipmb-shaped", d, || json!({"prop": "C17", "check": "probe-history", "spec": spec, "input": hex(&buf), "ctx": 0}));
                }
            }
        }
    });
    // inputs whose total length sits around 2^16 (length arithmetic narrower than usize)
    run.sweep("prefix [0x46, 0x0F, b2] for all b2 x total lengths 65533..=65540", 256 * 8, |acc, i| {
        let total = 65533 + (i / 256) as usize;
        let mut buf = vec![0x5Au8; total];
        buf[0] = 0x46;
        buf[1] = 0x0F;
        buf[2] = i as u8;
        let owned = Owned::new(&Cfg::simple(0x23));
        let ctx = owned.ctx();
        let got = subject::get_length(&ctx, &buf);
        acc.evals += 1;
        acc.trans += 1;
        acc.validated += 1;
        let exp = LenOut::Ok(buf[2] as usize + 4);
        if got != exp {
            acc.violation(2, "probe-huge", format!("get_length on {} bytes starting 46 0f {:02x} = {:?}, expected {:?}", total, buf[2], got, exp), || json!({"prop": "C17", "check": "huge", "b2": buf[2], "total": total}));
        }
    });
    // cross-kind histories ending in a probe
    crate::explore::stateless(
        run,
        "C17",
        "MIXSEQ (every kind of call on one context), probes judged",
        &crate::props::stateprops::mixed_machine(),
        if run.tier.thorough() { 5 } else { 4 },
        &|d: &crate::explore::Diff, h: &[Event]| d.aspect == crate::explore::Aspect::Result && matches!(h.last(), Some(Event::GetLength(_))),
    );
    crate::props::stateprops::runseq_for(run, "C17", &|d: &crate::explore::Diff, h: &[Event]| d.aspect == crate::explore::Aspect::Result && matches!(h.last(), Some(Event::GetLength(_))));
    run.sweep_chunked("byte0=0x46 prefixes x 300-byte continuation", 1 << 16, |acc, lo, hi| {
        let owned: Vec<Owned> = specs.iter().map(|s| Owned::new(&s.cfg)).collect();
        let mut buf = Vec::with_capacity(320);
        for i in lo..hi {
            let ctxs: Vec<_> = owned.iter().zip(&specs).map(|(o, s)| build(o, &s.history)).collect();
            let p3 = [0x46, (i >> 8) as u8, i as u8];
            continuation(3, &p3, &mut buf);
            acc.evals += 1;
            for (ci, ctx) in ctxs.iter().enumerate() {
                let got = subject::get_length(ctx, &buf);
                acc.trans += 1;
                acc.validated += 1;
                if let Some(d) = judge_one(&got, &buf) {
                    acc.violation(3, "probe-long", d, || case_json(ci, &buf));
                }
            }
        }
        acc.outcome("long.visited");
    });
    run.sweep_chunked("inputs shorter than three bytes", 1 + 256 + 65536, |acc, lo, hi| {
        let owned: Vec<Owned> = specs.iter().map(|s| Owned::new(&s.cfg)).collect();
        for i in lo..hi {
            let ctxs: Vec<_> = owned.iter().zip(&specs).map(|(o, s)| build(o, &s.history)).collect();
            let v: Vec<u8> = if i == 0 {
                vec![]
            } else if i <= 256 {
                vec![(i - 1) as u8]
            } else {
                let j = i - 257;
                vec![(j >> 8) as u8, j as u8]
            };
            acc.evals += 1;
            for (ci, ctx) in ctxs.iter().enumerate() {
                let got = subject::get_length(ctx, &v);
                acc.trans += 1;
                acc.validated += 1;
                if let Some(d) = judge_one(&got, &v) {
                    acc.violation(0, "probe-short", d, || case_json(ci, &v));
                }
                if i < 3 {
                    acc.sample(|| json!({"input": hex(&v), "observed": format!("{:?}", got)}));
                }
            }
            acc.state((1 << 40) | i);
        }
        acc.outcome("short.visited");
    });
}

pub fn replay(case: &Value) -> Result<ReplayOut, String> {
    if case["check"].as_str() == Some("huge") {
        let total = get_u64(case, "total")? as usize;
        let mut buf = vec![0x5Au8; total];
        buf[0] = 0x46;
        buf[1] = 0x0F;
        buf[2] = get_u64(case, "b2")? as u8;
        let owned = Owned::new(&Cfg::simple(0x23));
        let got = subject::get_length(&owned.ctx(), &buf);
        let exp = LenOut::Ok(buf[2] as usize + 4);
        return Ok(ReplayOut { violations: (got != exp).then(|| format!("{:?} != {:?}", got, exp)).into_iter().collect(), observed: format!("{:?}", got) });
    }
    if case["check"].as_str() == Some("history") {
        let (diffs, _last, observed) = crate::explore::replay_history(case)?;
        let history: Vec<Event> = get_de(case, "history")?;
        let v = diffs
            .iter()
            .filter(|d| d.aspect == crate::explore::Aspect::Result && matches!(history.last(), Some(Event::GetLength(_))))
            .map(|d| d.text.clone())
            .collect();
        return Ok(ReplayOut { violations: v, observed });
    }
    if case["check"].as_str() == Some("probe-history") {
        let spec: CtxSpec = get_de(case, "spec")?;
        let input = get_hex(case, "input")?;
        let owned = Owned::new(&spec.cfg);
        let ctx = build(&owned, &spec.history);
        let got = subject::get_length(&ctx, &input);
        return Ok(ReplayOut { violations: judge_one(&got, &input).into_iter().collect(), observed: format!("{:?}", got) });
    }
    let input = get_hex(case, "input")?;
    let ci = get_u64(case, "ctx")? as usize;
    let specs = specs();
    let spec = specs.get(ci).ok_or("bad ctx index")?;
    let owned = Owned::new(&spec.cfg);
    let ctx = build(&owned, &spec.history);
    let got = subject::get_length(&ctx, &input);
    Ok(ReplayOut { violations: judge_one(&got, &input).into_iter().collect(), observed: format!("{:?}", got) })
}
