//! Shared encoder machinery for C01, C03-C08, C16: indexable spaces of encoder
//! calls and the aspect-wise oracles that compare a real encoder run with the
//! reference packet.
use crate::engine::{background, Ix, Tier};
use crate::refmodel::*;
use crate::subject::{self, EncOut};
use crate::types::*;
use libmctp::smbus::MCTPSMBusContext;

/// A finite, indexable space of encoder calls.
pub struct CallSpace {
    pub name: String,
    pub n: u64,
    pub f: Box<dyn Fn(u64) -> EncCall + Sync + Send>,
}

impl CallSpace {
    pub fn new(name: &str, n: u64, f: impl Fn(u64) -> EncCall + Sync + Send + 'static) -> Self {
        CallSpace { name: name.to_string(), n, f: Box::new(f) }
    }
    pub fn get(&self, i: u64) -> EncCall {
        (self.f)(i)
    }
}

pub fn lane_bytes<const N: usize>(i: u64, nbg: u64) -> [u8; N] {
    // index -> (value, lane, background)
    let mut ix = Ix(i);
    let val = ix.take(256) as u8;
    let lane = ix.take(N as u64) as usize;
    let bg = ix.take(nbg);
    let mut b = [0u8; N];
    for (k, x) in b.iter_mut().enumerate() {
        *x = background(bg, k);
    }
    b[lane] = val;
    b
}

pub fn lane_vec(n: usize, i: u64, nbg: u64) -> Vec<u8> {
    let mut ix = Ix(i);
    let val = ix.take(256) as u8;
    let lane = ix.take(n.max(1) as u64) as usize;
    let bg = ix.take(nbg);
    let mut b: Vec<u8> = (0..n).map(|k| background(bg, k)).collect();
    if n > 0 {
        b[lane] = val;
    }
    b
}

/// Body contents for the "every length" spaces: 4 backgrounds, then a walking
/// byte (position p, value in {0x01, 0x80, 0xFF}, rest 0).
pub fn body_contents(len: usize) -> u64 {
    4 + 3 * len as u64
}
pub fn body_content(len: usize, k: u64) -> Vec<u8> {
    if k < 4 {
        (0..len).map(|i| background(k, i)).collect()
    } else {
        let k = k - 4;
        let pos = (k / 3) as usize;
        let val = [0x01u8, 0x80, 0xFF][(k % 3) as usize];
        let mut v = vec![0u8; len];
        v[pos] = val;
        v
    }
}

/// The 17 request encoders, arguments fully crossed where they are byte sized
/// (the C06 space).
pub fn request_spaces(_tier: Tier) -> Vec<CallSpace> {
    let mut v = vec![
        CallSpace::new("set_endpoint_id op x eid", 4 * 256, |i| EncCall::ReqSetEid { op: (i / 256) as u8, eid: i as u8 }),
        CallSpace::new("get_endpoint_id", 1, |_| EncCall::ReqGetEid),
        CallSpace::new("get_endpoint_uuid", 1, |_| EncCall::ReqGetUuid),
        CallSpace::new("get_mctp_version_support q", 5, |i| EncCall::ReqGetVersion { q: i as u8 }),
        CallSpace::new("get_message_type_suport", 1, |_| EncCall::ReqGetMsgTypes),
        CallSpace::new("get_vendor_defined_message_support sel", 256, |i| EncCall::ReqGetVendor { sel: i as u8 }),
        CallSpace::new("resolve_endpoint_id eid", 256, |i| EncCall::ReqResolveEid { eid: i as u8 }),
        CallSpace::new("allocate_endpoint_ids op x size x first", 3 * 65536, |i| EncCall::ReqAllocate {
            op: (i / 65536) as u8,
            size: (i >> 8) as u8,
            first: i as u8,
        }),
        CallSpace::new("get_routing_table_entries h", 256, |i| EncCall::ReqGetRoutingTable { h: i as u8 }),
        CallSpace::new("prepare_for_endpoint_discovery", 1, |_| EncCall::ReqPrepare),
        CallSpace::new("endpoint_discovery", 1, |_| EncCall::ReqDiscovery),
        CallSpace::new("discovery_notify", 1, |_| EncCall::ReqNotify),
        CallSpace::new("get_network_id", 1, |_| EncCall::ReqNetworkId),
        CallSpace::new("query_hop eid x type", 256 * 6, |i| EncCall::ReqQueryHop { eid: i as u8, ty: (i / 256) as u8 }),
        CallSpace::new("query_rate_limit", 1, |_| EncCall::ReqQueryRate),
        CallSpace::new("resolve_uuid lanes(uuid) x 3 handles", 256 * 16 * 4 * 3, |i| {
            let h = [0x00u8, 0x5A, 0xFF][(i % 3) as usize];
            EncCall::ReqResolveUuid { uuid: lane_bytes::<16>(i / 3, 4), h }
        }),
        CallSpace::new("resolve_uuid base uuid x 256 handles", 256, |i| EncCall::ReqResolveUuid {
            uuid: super::common::U1,
            h: i as u8,
        }),
    ];
    // Routing Information Update: pairs and chains of *structured* entries (contiguous and
    // overlapping EID ranges, same / different bridge, every entry type): entries whose fields
    // are related to their neighbours', which byte lanes over a background never are
    {
        fn structured(k: u64) -> [u8; 4] {
            let mut ix = Ix(k);
            let ty = [0x00u8, 0x01, 0x02, 0x03, 0xF3][ix.take(5) as usize];
            let size = [0x00u8, 0x01, 0x04][ix.take(3) as usize];
            // 0x42 is the EID stored in one of the encoder contexts, 0x23 the context's own address
            let first = [0x10u8, 0x11, 0x14, 0x42][ix.take(4) as usize];
            let addr = [0x40u8, 0x23][ix.take(2) as usize];
            [ty, size, first, addr]
        }
        const NS: u64 = 5 * 3 * 4 * 2;
        for via_new in [false, true] {
            v.push(CallSpace::new(
                &format!("routing_information_update: every ordered pair of {} structured entries via {}", NS, if via_new { "new()" } else { "new_from_buf()" }),
                NS * NS,
                move |i| EncCall::ReqRouting { entries: vec![structured(i / NS), structured(i % NS)], via_new },
            ));
            // chains of 2..=12 consecutive one-EID / four-EID ranges behind one bridge (8.. refused)
            v.push(CallSpace::new(
                &format!("routing_information_update: chains of contiguous ranges, 2..=12 entries x 4 types x 2 sizes via {}", if via_new { "new()" } else { "new_from_buf()" }),
                11 * 4 * 2,
                move |i| {
                    let mut ix = Ix(i);
                    let n = 2 + ix.take(11) as usize;
                    let ty = ix.take(4) as u8;
                    let size = [1u8, 4][ix.take(2) as usize];
                    let entries = (0..n).map(|k| [ty, size, 0x10u8.wrapping_add(k as u8 * size), 0x40]).collect();
                    EncCall::ReqRouting { entries, via_new }
                },
            ));
        }
    }
    // Routing Information Update: 0..=7 entries accepted (8..=12 refused)
    for count in 0..=12usize {
        let nbytes = 4 * count;
        let lanes = if count == 0 { 1 } else { 256 * nbytes as u64 * 3 };
        for via_new in [false, true] {
            v.push(CallSpace::new(
                &format!("routing_information_update {} entries lanes via {}", count, if via_new { "new()" } else { "new_from_buf()" }),
                if count >= 8 { 3 } else { lanes },
                move |i| {
                    let flat = if count == 0 {
                        vec![]
                    } else if count >= 8 {
                        (0..nbytes).map(|k| background(i, k)).collect()
                    } else {
                        lane_vec(nbytes, i, 3)
                    };
                    let entries = flat.chunks(4).map(|c| [c[0], c[1], c[2], c[3]]).collect();
                    EncCall::ReqRouting { entries, via_new }
                },
            ));
        }
    }
    // entry counts around and beyond 2^8 (a count narrowed to the wire's u8 before it is checked)
    for count in [13usize, 64, 255, 256, 257, 263, 264, 511, 512, 519] {
        v.push(CallSpace::new(&format!("routing_information_update {} entries (refused)", count), 2, move |i| {
            let entries = (0..count).map(|k| [0x03u8, 1, (k as u8).wrapping_mul(3).wrapping_add(i as u8), 0x40]).collect();
            EncCall::ReqRouting { entries, via_new: i == 1 }
        }));
    }
    v
}

/// The six response encoders x six completion codes (the C07 space, without
/// the stored-EID dimension which C07 adds through context histories).
pub fn response_spaces(_tier: Tier) -> Vec<CallSpace> {
    let mut v = vec![
        CallSpace::new("set_endpoint_id cc x assign x alloc", 6 * 2 * 3, |i| {
            let mut ix = Ix(i);
            EncCall::RespSetEid { cc: ix.take(6) as u8, assign: ix.take(2) as u8, alloc: ix.take(3) as u8 }
        }),
        CallSpace::new("get_endpoint_id cc x type x idtype x fair", 6 * 2 * 4 * 2, |i| {
            let mut ix = Ix(i);
            EncCall::RespGetEid { cc: ix.take(6) as u8, ty: ix.take(2) as u8, idty: ix.take(4) as u8, fair: ix.take(2) == 1 }
        }),
        CallSpace::new("get_endpoint_uuid lanes(uuid) at Success + 5 other codes", 256 * 16 * 4 + 5, |i| {
            if i < 256 * 16 * 4 {
                EncCall::RespUuid { cc: 0, uuid: lane_bytes::<16>(i, 4) }
            } else {
                EncCall::RespUuid { cc: (i - 256 * 16 * 4 + 1) as u8, uuid: super::common::U2 }
            }
        }),
        CallSpace::new("get_mctp_version_support cc", 6, |i| EncCall::RespVersion { cc: i as u8 }),
    ];
    for len in 0..=40usize {
        let lanes = 256 * len.max(1) as u64 * 3;
        let n = if len > 30 { 6 * 3 } else { lanes + 5 };
        v.push(CallSpace::new(&format!("get_message_type_suport lanes({} types) at Success + 5 other codes", len), n, move |i| {
            if len > 30 {
                let mut ix = Ix(i);
                let cc = ix.take(6) as u8;
                EncCall::RespMsgTypes { cc, types: (0..len).map(|k| background(ix.0, k)).collect() }
            } else if i < lanes {
                EncCall::RespMsgTypes { cc: 0, types: lane_vec(len, i, 3) }
            } else {
                EncCall::RespMsgTypes { cc: (i - lanes + 1) as u8, types: (0..len).map(|k| background(2, k)).collect() }
            }
        }));
    }
    for len in 0..=7usize {
        let lanes = 256 * len.max(1) as u64 * 3 * 3;
        v.push(CallSpace::new(
            &format!("get_vendor_defined_message_support lanes({}-byte field) x 3 selectors at Success + 5 other codes", len),
            lanes + 5,
            move |i| {
                if i < lanes {
                    let mut ix = Ix(i);
                    let sel = [0x00u8, 0x01, 0xFF][ix.take(3) as usize];
                    EncCall::RespVendor { cc: 0, sel, field: lane_vec(len, ix.0, 3) }
                } else {
                    EncCall::RespVendor { cc: (i - lanes + 1) as u8, sel: 0x02, field: (0..len).map(|k| background(3, k)).collect() }
                }
            },
        ));
    }
    v.push(CallSpace::new("get_vendor_defined_message_support 256 selectors", 256, |i| EncCall::RespVendor {
        cc: 0,
        sel: i as u8,
        field: vec![0x00, 0x14, 0x14, 0x00, 0x04],
    }));
    v
}

/// Vendor-defined / SPDM / secured message framing (the C08 space).
/// `full_iana`: include all 2^32 IANA numbers (C08's thorough tier only).
pub fn vendor_spaces(_tier: Tier, full_iana: bool) -> Vec<CallSpace> {
    let msg5 = || vec![0x11u8, 0x22, 0x33, 0x44, 0x55];
    let mut v = vec![
        CallSpace::new("vendor_defined format byte 0..=255", 256 * 2, move |i| EncCall::Vendor {
            fmt: i as u8,
            data: if i < 256 { 0x1234_5678 } else { 0x0000_0000 },
            num: 0xBEEF,
            msg: vec![0x11u8, 0x22, 0x33, 0x44, 0x55],
        }),
        CallSpace::new("vendor_defined PCI all 65 536 ids x 3 upper halves", 65536 * 3, move |i| EncCall::Vendor {
            fmt: 0,
            data: ([0x0000u32, 0xFFFF, 0xA5C3][(i / 65536) as usize] << 16) | (i & 0xFFFF) as u32,
            num: 7,
            msg: msg5(),
        }),
        CallSpace::new("vendor_defined IANA lanes(4 bytes) x 4 backgrounds", 256 * 4 * 4, move |i| EncCall::Vendor {
            fmt: 1,
            data: u32::from_be_bytes(lane_bytes::<4>(i, 4)),
            num: 7,
            msg: vec![0xA0, 0xB1],
        }),
        CallSpace::new("vendor_defined IANA all values of each 16-bit half x 2 other halves", 65536 * 2 * 2, move |i| {
            let mut ix = Ix(i);
            let h = ix.take(65536) as u32;
            let which = ix.take(2);
            let other = if ix.take(2) == 0 { 0x0000u32 } else { 0xC3A5 };
            EncCall::Vendor { fmt: 1, data: if which == 0 { (h << 16) | other } else { (other << 16) | h }, num: 7, msg: vec![0xA0, 0xB1] }
        }),
        CallSpace::new("vendor_defined numeric_value all 65 536 (must not appear)", 65536 * 2, move |i| EncCall::Vendor {
            fmt: (i / 65536) as u8,
            data: 0x0102_0304,
            num: i as u16,
            msg: vec![0x77],
        }),
    ];
    if full_iana {
        v.push(CallSpace::new("vendor_defined IANA all 2^32 numbers", 1u64 << 32, move |i| EncCall::Vendor {
            fmt: 1,
            data: i as u32,
            num: 7,
            msg: vec![],
        }));
    }
    // self-similar content: the message starts with bytes of the packet's own framing (the type
    // byte and/or the vendor id), which a "de-duplicating" encoder could mistake for a header
    v.push(CallSpace::new("vendor_defined PCI: all 65 536 ids x message echoing [type, id] / [id] / [type]", 65536 * 3, move |i| {
        let id = (i & 0xFFFF) as u32;
        let (hi, lo) = ((id >> 8) as u8, id as u8);
        let msg = match i >> 16 {
            0 => vec![0x7E, hi, lo, 0xAA, 0x55],
            1 => vec![hi, lo, 0x7E, hi, lo],
            _ => vec![0x7E, 0x7E, hi],
        };
        EncCall::Vendor { fmt: 0, data: id, num: 3, msg }
    }));
    v.push(CallSpace::new("vendor_defined IANA: id lanes x 4 backgrounds x message echoing [type, id] / [id] / [type]", 256 * 4 * 4 * 3, move |i| {
        let id = lane_bytes::<4>(i / 3, 4);
        let msg = match i % 3 {
            0 => [&[0x7Fu8][..], &id[..], &[0xAA, 0x55][..]].concat(),
            1 => [&id[..], &[0x7F][..], &id[..]].concat(),
            _ => vec![0x7F, 0x7F, id[0]],
        };
        EncCall::Vendor { fmt: 1, data: u32::from_be_bytes(id), num: 3, msg }
    }));
    // bodies of every length that fits (0..=247 PCI, 0..=245 IANA) and a few beyond, walking contents
    for (fmt, max) in [(0u8, 247usize), (1u8, 245usize)] {
        let total: u64 = (0..=max + 3).map(body_contents).sum();
        v.push(CallSpace::new(
            &format!("vendor_defined {} bodies of every length 0..={} x walking contents", if fmt == 0 { "PCI" } else { "IANA" }, max + 3),
            total,
            move |mut i| {
                let mut len = 0usize;
                while i >= body_contents(len) {
                    i -= body_contents(len);
                    len += 1;
                }
                EncCall::Vendor { fmt, data: 0x8086_1AF4, num: 1, msg: body_content(len, i) }
            },
        ));
    }
    // raw writers: header None / Some(0..=8 bytes) x data lengths x both halves
    for writer in [Writer::Pci, Writer::Iana, Writer::Spdm, Writer::Secured, Writer::Control] {
        // 10 header shapes x data length 0..=252 x 3 contents x 2 halves
        v.push(CallSpace::new(&format!("{:?} writer: header shape x data length x content x half", writer), 10 * 253 * 3 * 2, move |i| {
            let mut ix = Ix(i);
            let hs = ix.take(10) as usize;
            let dl = ix.take(253) as usize;
            let c = ix.take(3);
            let half = if ix.take(2) == 0 { Half::Req } else { Half::Resp };
            let hdr = if hs == 0 { None } else { Some((0..hs - 1).map(|k| 0xE0 + k as u8).collect::<Vec<u8>>()) };
            let data: Vec<u8> = (0..dl).map(|k| background(c + 1, k + 3)).collect();
            EncCall::Raw { half, writer, hdr, data }
        }));
    }
    v
}

/// Two argument tuples for each of the 30 encoder kinds (17 requests, 6
/// responses, PCI and IANA vendor messages, 5 raw writers).
pub fn basic_calls() -> Vec<EncCall> {
    use EncCall::*;
    let u = super::common::U1;
    let u2 = super::common::U2;
    vec![
        ReqSetEid { op: 0, eid: 0x56 },
        ReqSetEid { op: 3, eid: 0xFE },
        ReqGetEid,
        ReqGetEid,
        ReqGetUuid,
        ReqGetUuid,
        ReqGetVersion { q: 0 },
        ReqGetVersion { q: 4 },
        ReqGetMsgTypes,
        ReqGetMsgTypes,
        ReqGetVendor { sel: 0 },
        ReqGetVendor { sel: 0xA7 },
        ReqResolveEid { eid: 0x09 },
        ReqResolveEid { eid: 0xF0 },
        ReqAllocate { op: 0, size: 8, first: 0x20 },
        ReqAllocate { op: 2, size: 0xFF, first: 0x01 },
        ReqRouting { entries: vec![[0x01, 0x02, 0x30, 0x44]], via_new: true },
        ReqRouting { entries: vec![[0xF3, 0x10, 0x20, 0x30], [0x02, 0xFF, 0x80, 0x01], [0x00, 0x00, 0x00, 0x00]], via_new: false },
        ReqGetRoutingTable { h: 0 },
        ReqGetRoutingTable { h: 0x9C },
        ReqPrepare,
        ReqPrepare,
        ReqDiscovery,
        ReqDiscovery,
        ReqNotify,
        ReqNotify,
        ReqNetworkId,
        ReqNetworkId,
        ReqQueryHop { eid: 0x33, ty: 0 },
        ReqQueryHop { eid: 0xC1, ty: 3 },
        ReqResolveUuid { uuid: u, h: 0x01 },
        ReqResolveUuid { uuid: u2, h: 0xFE },
        ReqQueryRate,
        ReqQueryRate,
        RespSetEid { cc: 0, assign: 0, alloc: 0 },
        RespSetEid { cc: 2, assign: 1, alloc: 2 },
        RespGetEid { cc: 0, ty: 0, idty: 0, fair: false },
        RespGetEid { cc: 0, ty: 1, idty: 3, fair: true },
        RespUuid { cc: 0, uuid: u },
        RespUuid { cc: 5, uuid: u2 },
        RespVersion { cc: 0 },
        RespVersion { cc: 1 },
        RespMsgTypes { cc: 0, types: vec![0x7E] },
        RespMsgTypes { cc: 0, types: (0..30).map(|i| 0x80 | i as u8).collect() },
        RespVendor { cc: 0, sel: 0xFF, field: vec![0x00, 0x12, 0x34, 0x00, 0xAB] },
        RespVendor { cc: 0, sel: 0x01, field: vec![0x01, 0xDE, 0xAD, 0xBE, 0xEF, 0x00, 0x09] },
        Vendor { fmt: 0, data: 0x1AF4, num: 4, msg: vec![0x11, 0x22, 0x33, 0x44, 0x55] },
        Vendor { fmt: 0, data: 0xFFFF_8086, num: 0, msg: vec![] },
        Vendor { fmt: 1, data: 0xDEAD_BEEF, num: 4, msg: vec![1, 2, 3, 4, 5] },
        Vendor { fmt: 1, data: 0x0000_0137, num: 0, msg: (0..64).map(|i| i as u8 ^ 0xC3).collect() },
        Raw { half: Half::Req, writer: Writer::Control, hdr: Some(vec![0x80, 0x02]), data: vec![] },
        Raw { half: Half::Resp, writer: Writer::Control, hdr: None, data: vec![0x00, 0x05, 0x00, 0x01, 0x7E] },
        Raw { half: Half::Req, writer: Writer::Pci, hdr: Some(vec![0x1A, 0xF4]), data: vec![9, 8, 7] },
        Raw { half: Half::Resp, writer: Writer::Pci, hdr: None, data: vec![0xFF; 17] },
        Raw { half: Half::Req, writer: Writer::Iana, hdr: Some(vec![0, 0, 1, 0x37]), data: vec![0x42] },
        Raw { half: Half::Resp, writer: Writer::Iana, hdr: Some(vec![]), data: vec![] },
        Raw { half: Half::Req, writer: Writer::Spdm, hdr: None, data: vec![0x10, 0x84, 0x00, 0x00] },
        Raw { half: Half::Resp, writer: Writer::Spdm, hdr: Some(vec![0x11]), data: vec![0xE1, 0x00, 0x00] },
        Raw { half: Half::Req, writer: Writer::Secured, hdr: Some(vec![0xFF, 0xFF, 0xFF, 0xFF]), data: vec![0xAA; 32] },
        Raw { half: Half::Resp, writer: Writer::Secured, hdr: None, data: vec![0x00] },
    ]
}

/// Writers and `vendor_defined` with bodies of every size giving totals of
/// 10..=310 bytes (the C03/C04 length space); content index k < body_contents(len).
pub fn sized_call(kind: u64, data_len: usize, k: u64) -> EncCall {
    let data = body_content(data_len, k);
    match kind {
        0 => EncCall::Raw { half: Half::Req, writer: Writer::Control, hdr: None, data },
        1 => EncCall::Raw { half: Half::Resp, writer: Writer::Pci, hdr: None, data },
        2 => EncCall::Raw { half: Half::Req, writer: Writer::Iana, hdr: Some(vec![0xDE, 0xAD, 0xBE, 0xEF]), data },
        3 => EncCall::Raw { half: Half::Resp, writer: Writer::Spdm, hdr: None, data },
        4 => EncCall::Raw { half: Half::Req, writer: Writer::Secured, hdr: Some(vec![0x5A]), data },
        5 => EncCall::Vendor { fmt: 0, data: 0x1414, num: 0, msg: data },
        _ => EncCall::Vendor { fmt: 1, data: 0x0001_0203, num: 0, msg: data },
    }
}
pub const SIZED_KINDS: u64 = 7;

// ---------------------------------------------------------------------------
// Running an encoder and measuring what it wrote
// ---------------------------------------------------------------------------

#[inline]
pub fn enc_poison(i: usize, flavour: u8) -> u8 {
    match flavour {
        0 => 0xAA,
        1 => 0x55,
        // position dependent, and different from the two constant poisons at every index
        _ => match (i as u8).wrapping_mul(73).wrapping_add(5) {
            0x55 | 0xAA => 0x3C,
            v => v,
        },
    }
}

pub struct EncRun {
    pub out: EncOut,
    pub buf: Vec<u8>,
    pub flavour: u8,
    /// the buffer as it was before the call (poison, possibly with a previous
    /// packet at its start)
    pub pre: Vec<u8>,
}

thread_local! {
    /// Prior buffer content: when set, every buffer handed to an encoder starts
    /// with these bytes (a packet left there by an earlier call) instead of poison.
    static PREFILL: std::cell::RefCell<Option<Vec<u8>>> = const { std::cell::RefCell::new(None) };
}

pub fn set_prefill(p: Option<Vec<u8>>) {
    PREFILL.with(|c| *c.borrow_mut() = p);
}
pub fn prefill_active() -> bool {
    PREFILL.with(|c| c.borrow().is_some())
}

impl EncRun {
    /// positions that differ from the buffer's previous content
    pub fn touched(&self) -> Option<(usize, usize)> {
        let mut first = None;
        let mut last = 0;
        for (i, b) in self.buf.iter().enumerate() {
            if *b != self.pre[i] {
                if first.is_none() {
                    first = Some(i);
                }
                last = i + 1;
            }
        }
        first.map(|f| (f, last))
    }
}

pub fn run_enc(ctx: &MCTPSMBusContext, call: &EncCall, dst: u8, size: usize, flavour: u8) -> EncRun {
    run_enc_opt(ctx, call, dst, size, flavour, true)
}

/// `use_prefill` false: pure poison even when a prefill is active (the
/// comparison run of C16).
pub fn run_enc_opt(ctx: &MCTPSMBusContext, call: &EncCall, dst: u8, size: usize, flavour: u8, use_prefill: bool) -> EncRun {
    let mut buf: Vec<u8> = (0..size).map(|i| enc_poison(i, flavour)).collect();
    PREFILL.with(|c| {
        if let Some(p) = c.borrow().as_ref() {
            if use_prefill {
                let n = p.len().min(size);
                buf[..n].copy_from_slice(&p[..n]);
            }
        }
    });
    let pre = buf.clone();
    let out = subject::encode(ctx, call, dst, &mut buf);
    EncRun { out, buf, flavour, pre }
}

/// Expected packet for a call on a context with the given address and stored
/// response-half EID.
pub fn expect(call: &EncCall, src: u8, dst: u8, eid_resp: u8) -> EncExp {
    enc_expect(call, src, dst, eid_resp)
}

/// K-C06-QUERYHOP attribution: the output equals the reference except that
/// byte 10 is 0x0E and the PEC is the right PEC of those bytes.
pub fn is_query_hop_finding(call: &EncCall, exp: &[u8], got: &[u8]) -> bool {
    if !matches!(call, EncCall::ReqQueryHop { .. }) || exp.len() != got.len() || got.len() < 12 {
        return false;
    }
    let n = got.len();
    let mut e = exp.to_vec();
    e[10] = QUERY_HOP_LIB_CODE;
    fix_pec(&mut e);
    e[..n] == got[..n] && exp[10] == 0x0F
}

/// Encoder calls made on the context *before* the call under test ("used"
/// contexts).  Variant 1: calls that share argument values with it but differ
/// where a cache keyed too coarsely would confuse them, a consumer of the
/// stored EID, and the call itself.  Variant 2: a long call that leaves
/// non-zero bytes everywhere, then a *refused* call (state that is only
/// cleaned up on the success path), then nothing else.
pub fn predecessors(call: &EncCall, variant: u64) -> Vec<EncCall> {
    use EncCall::*;
    if variant == 2 {
        return match call {
            Vendor { fmt, data, num, .. } => vec![
                Vendor { fmt: if *fmt == 0 { 1 } else { 0 }, data: *data, num: *num, msg: vec![0xEE; 200] },
                Vendor { fmt: 7, data: *data, num: *num, msg: vec![0xEE; 3] },
            ],
            Raw { half, writer, hdr, .. } => vec![
                Raw { half: *half, writer: *writer, hdr: hdr.clone(), data: vec![0xEE; 200] },
                Raw { half: *half, writer: *writer, hdr: hdr.clone(), data: vec![0xEE; 300] },
            ],
            c if c.is_request() => vec![
                ReqResolveUuid { uuid: [0xDD; 16], h: 0xDD },
                ReqRouting { entries: vec![[0xDD; 4]; 7], via_new: false },
                ReqRouting { entries: vec![[0xDD; 4]; 9], via_new: false },
                ReqSetEid { op: 1, eid: 0x00 },
            ],
            _ => vec![
                RespUuid { cc: 0, uuid: [0xCC; 16] },
                RespMsgTypes { cc: 0, types: vec![0xBB; 30] },
                RespMsgTypes { cc: 0, types: vec![0xBB; 31] },
            ],
        };
    }
    match call {
        Vendor { fmt, data, num, msg } => vec![
            // same number, the other format (a header cache keyed on the number alone)
            Vendor { fmt: if *fmt == 0 { 1 } else { 0 }, data: *data, num: *num, msg: msg.clone() },
            RespGetEid { cc: 0, ty: 1, idty: 2, fair: true },
        ],
        Raw { half, writer, hdr, data } => vec![
            Raw { half: *half, writer: *writer, hdr: hdr.clone(), data: data.iter().map(|b| !b).chain([0xEE, 0xEE]).collect() },
            Vendor { fmt: 0, data: 0x1234, num: 0, msg: vec![0xCC; 40] },
        ],
        c if c.is_request() => vec![
            ReqResolveUuid { uuid: [0xDD; 16], h: 0xDD },
            c.clone(),
            ReqAllocate { op: 1, size: 0xEE, first: 0xEE },
        ],
        c => vec![
            // responses: a long one that leaves non-zero scratch behind, a Get EID (consumers of the
            // stored EID), then the same call once already
            RespMsgTypes { cc: 0, types: vec![0xBB; 30] },
            RespGetEid { cc: 0, ty: 1, idty: 3, fair: true },
            RespUuid { cc: 0, uuid: [0xCC; 16] },
            c.clone(),
        ],
    }
}
