//! C01 — encode then decode is the identity on message type and payload.
use super::common::*;
use super::enc::*;
use super::encprops::{five_pairs, Addrs};
use super::*;
use crate::engine::{Acc, Ix, ReplayOut};
#[allow(unused_imports)]
use crate::engine::Run as _Run;
use crate::refmodel::*;
use crate::subject::{self, DecOut, EncOut, Owned};
use crate::types::*;
use libmctp::smbus::MCTPSMBusContext;
use serde_json::{json, Value};

pub const K_GEID_RESP: &str = "K-C01-GEID-RESP";
pub const K_REQ_UNIMPL_C01: &str = "K-C01-REQ-UNIMPL";

struct Judged {
    viols: Vec<(&'static str, String)>,
    known: Option<&'static str>,
    observed: String,
    produced: bool,
    skipped: u64,
}

fn in_scope(call: &EncCall) -> bool {
    // the generic control writer is not an encoder of a message kind of its own:
    // what it produces depends entirely on the caller's bytes
    !matches!(call, EncCall::Raw { writer: Writer::Control, .. })
}

fn judge(sender: &MCTPSMBusContext, receivers: &[(&str, &MCTPSMBusContext)], src: u8, eid_resp: u8, call: &EncCall, dst: u8, thin: bool, want_obs: bool) -> Judged {
    let mut j = Judged { viols: vec![], known: None, observed: String::new(), produced: false, skipped: 0 };
    let exp = expect(call, src, dst, eid_resp);
    let r = run_enc(sender, call, dst, 320, 2);
    let n = match r.out {
        EncOut::Ok(n) if n <= r.buf.len() => n,
        _ => {
            j.observed = format!("{:?}", r.out);
            return j; // nothing was encoded: nothing to round-trip (refusals are C16's)
        }
    };
    j.produced = true;
    let bytes = &r.buf[..n];
    let rd = ref_decode(bytes);
    // what the property promises for this encoder
    let (want_ty, want_off) = if call.is_request() {
        (T_CONTROL, 11)
    } else if call.is_response() {
        (T_CONTROL, 12)
    } else {
        (bytes.get(8).copied().unwrap_or(0xFF) & 0x7F, 9)
    };
    let cc = match call {
        EncCall::RespSetEid { cc, .. } | EncCall::RespGetEid { cc, .. } | EncCall::RespUuid { cc, .. } | EncCall::RespVersion { cc } | EncCall::RespMsgTypes { cc, .. } | EncCall::RespVendor { cc, .. } => *cc,
        _ => 0,
    };
    let mut obs = vec![];
    for (k, (rname, rc)) in receivers.iter().enumerate() {
        // an unwinding panic is ~200x the cost of a decode: once the first receiver has
        // reproduced a known panic, the other receivers only repeat it on a 1/64 stride
        if k > 0 && j.known == Some(K_REQ_UNIMPL_C01) && thin {
            j.skipped += 1;
            continue;
        }
        let got = subject::decode(rc, bytes);
        if want_obs {
            obs.push(format!("{}:{:?}", rname, got));
        }
        if cc != 0 {
            let want = DecOut::Err { ty: T_CONTROL, err: EK::CmUnsucc(cc) };
            if got != want {
                j.viols.push(("unsuccessful-code", format!("{} with completion code {} decodes on {} to {:?}, expected {:?}", call.name(), cc, rname, got, want)));
            }
            continue;
        }
        match &got {
            DecOut::Ok { ty, off, len, inside } => {
                let end = off + len;
                if *ty != want_ty || *off != want_off || end != n - 1 || !(*inside || *len == 0) {
                    j.viols.push((
                        "payload",
                        format!(
                            "{} ({} bytes) decodes on {} to type {:#04x} payload [{}, {}), expected type {:#04x} payload [{}, {})",
                            call.name(), n, rname, ty, off, end, want_ty, want_off, n - 1
                        ),
                    ));
                } else if let EncExp::Bytes(e) = &exp {
                    // the payload must be what the caller asked to encode
                    if e.len() != n || e[want_off..n - 1] != bytes[want_off..n - 1] {
                        j.viols.push(("payload-content", format!("{}: decoded payload {} is not the encoded arguments {}", call.name(), hex(&bytes[want_off..n - 1]), hex(&e[want_off.min(e.len())..e.len().saturating_sub(1)]))));
                    }
                }
            }
            DecOut::Err { ty, err } => {
                if matches!(call, EncCall::RespGetEid { cc: 0, .. }) && *ty == T_CONTROL && *err == EK::CmInvLen {
                    j.known = Some(K_GEID_RESP);
                } else {
                    j.viols.push(("rejected-own-output", format!("{} ({} bytes: {}) is rejected by {} with ({:#04x}, {:?})", call.name(), n, hex(bytes), rname, ty, err)));
                }
            }
            DecOut::Panic(m) => {
                if call.is_request() && matches!(rd.class, Class::KnownPanic(K_REQ_UNIMPL)) && m.contains("not implemented") {
                    j.known = Some(K_REQ_UNIMPL_C01);
                } else {
                    j.viols.push(("panic", format!("decoding the output of {} on {} panicked: {}", call.name(), rname, m)));
                }
            }
        }
    }
    if want_obs {
        j.observed = format!("{} -> {}", hex(bytes), obs.join(" "));
    }
    j
}

fn receivers_specs(src: u8) -> Vec<CtxSpec> {
    let mut v = recv_specs();
    v.push(enc_specs(src).swap_remove(2));
    // forced collision: a receiver whose assigned EID equals the sender's address
    v.push(CtxSpec { cfg: Cfg::bare(0x6D), history: vec![Event::Process(set_eid_req(0x10, 0x6D, 1, src))] });
    v
}

#[allow(clippy::too_many_arguments)]
fn one(acc: &mut Acc, spec: &CtxSpec, rspecs: &[CtxSpec], recv: &[(&str, &MCTPSMBusContext)], sender: &MCTPSMBusContext, call: &EncCall, dst: u8, i: u64) {
    if !in_scope(call) {
        acc.skipped_known += 0;
        return;
    }
    let src = spec.cfg.addr;
    let eid_resp = build_ref(spec).eid_resp;
    acc.evals += 1;
    let sampled = i % 150_001 == 7;
    let j = judge(sender, recv, src, eid_resp, call, dst, i % 64 != 0, sampled);
    acc.trans += 1 + recv.len() as u64 - j.skipped;
    acc.skipped_known += j.skipped;
    acc.validated += 1;
    let f = Fnv::default().u64(fp(call)).u64(((src as u64) << 8) | dst as u64).finish();
    acc.state(f);
    if j.produced {
        acc.nontrivial(f);
    }
    acc.outcome2(call.name(), if !j.produced { "not-encoded" } else if j.known.is_some() { "known-finding" } else if j.viols.is_empty() { "round-trip-ok" } else { "violation" });
    if let Some(k) = j.known {
        acc.known(k, || json!({"call": call, "src": src, "dst": dst}));
    }
    if sampled {
        acc.sample(|| json!({"call": call, "src": src, "dst": dst, "observed": j.observed}));
    }
    for (kind, d) in j.viols {
        acc.violation(0, kind, d, || json!({"prop": "C01", "check": "roundtrip", "sender": spec, "receivers": rspecs, "call": call, "dst": dst}));
    }
}

fn sweep(run: &mut Run, name: &str, ncalls: u64, call_at: &(dyn Fn(u64) -> EncCall + Sync), addrs: &Addrs) {
    let na = match addrs {
        Addrs::All7 => 128 * 128,
        Addrs::All8 => 65536,
        Addrs::All7Stride => 1,
        Addrs::List(v) => v.len() as u64,
    };
    run.sweep_chunked(name, ncalls * na, |acc, lo, hi| {
        for i in lo..hi {
            let mut ix = Ix(i);
            let a = ix.take(na);
            let (src, dst) = match addrs {
                Addrs::All7 => ((a / 128) as u8, (a % 128) as u8),
                Addrs::All8 => ((a / 256) as u8, a as u8),
                Addrs::All7Stride => (0x23, 0x34),
                Addrs::List(v) => v[a as usize],
            };
            let call = call_at(ix.0);
            let spec = enc_specs(src).swap_remove(1);
            let so = Owned::new(&spec.cfg);
            let sender = build(&so, &spec.history);
            let rspecs = receivers_specs(src);
            let ros: Vec<Owned> = rspecs.iter().map(|s| Owned::new(&s.cfg)).collect();
            let rcs: Vec<MCTPSMBusContext> = ros.iter().zip(&rspecs).map(|(o, s)| build(o, &s.history)).collect();
            let names = ["fresh", "bare", "dirty", "own-config", "eid-equals-sender"];
            let mut recv: Vec<(&str, &MCTPSMBusContext)> = rcs.iter().enumerate().map(|(k, c)| (names[k], c)).collect();
            recv.push(("sender", &sender));
            one(acc, &spec, &rspecs, &recv, &sender, &call, dst, i);
        }
    });
}

pub fn run(run: &mut Run) {
    run.rule = "every call of the C06/C07/C08 argument spaces (17 request kinds, 6 response kinds x 6 codes, PCI/IANA vendor messages, SPDM/secured with and without header, every body length) x 5 address pairs, encoded on a context with EID 0x42, the exact bytes buf[..len] decoded on 5 receiving contexts (fresh, bare, dirty, own configuration, the sender itself); thorough adds all 128x128 pairs for the basic tuples; non-trivial = calls that produced a packet".into();
    run.bound("address_pairs", 5);
    run.bound("receiving_contexts", 5);
    run.assume("payload position is read from the returned slice's address relative to the input, never from a padded buffer");
    let tier = run.tier;
    let mut sp = request_spaces(tier);
    sp.extend(response_spaces(tier));
    sp.extend(vendor_spaces(tier, false));
    for s in &sp {
        // the 2^32 IANA space (thorough) is C08's; C01 takes it at one pair only
        // ... and the encoders whose output lands in a known decode-panic class at two pairs
        // (each case costs an unwinding panic)
        let panicky = s.name.starts_with("routing_information_update") || s.name.starts_with("resolve_uuid");
        let addrs = if s.n > 10_000_000 {
            Addrs::List(vec![(0x23, 0x34)])
        } else if panicky {
            Addrs::List(vec![(0x23, 0x34), (0x7F, 0x7F)])
        } else if tier.thorough() {
            super::encprops::addr_lanes()
        } else {
            five_pairs()
        };
        sweep(run, &s.name, s.n, &|i| s.get(i), &addrs);
    }
    // encoder-call sequences (ENCSEQ): what the last call of every sequence produced must round-trip
    super::encprops::sweep_encseq(run, "C01");
    super::encprops::sweep_encdeep(run, "C01");
    super::encprops::sweep_enc_thrash(run, "C01");
    // every 128 x 128 (sender, destination) pair for the basic tuples, decoded by the *addressee*
    // (a context at the destination address) and by a context holding the sender's address as EID
    {
        let basic = basic_calls();
        let nb = basic.len() as u64;
        run.sweep_chunked("30 kinds x 2 tuples x 128x128 (sender, destination), decoded by the addressee and by a context whose EID is the sender's address", nb * 128 * 128, |acc, lo, hi| {
            for i in lo..hi {
                let mut ix = Ix(i);
                let dst = ix.take(128) as u8;
                let src = ix.take(128) as u8;
                let call = &basic[ix.0 as usize];
                if !in_scope(call) {
                    continue;
                }
                let spec = CtxSpec::fresh(Cfg::simple(src));
                let so = Owned::new(&spec.cfg);
                let sender = so.ctx();
                let rspecs = vec![
                    CtxSpec::fresh(Cfg::bare(dst)),
                    CtxSpec { cfg: Cfg::bare(dst), history: vec![Event::Process(set_eid_req(0x7E, dst, 1, src))] },
                ];
                let ros: Vec<Owned> = rspecs.iter().map(|s| Owned::new(&s.cfg)).collect();
                let rcs: Vec<MCTPSMBusContext> = ros.iter().zip(&rspecs).map(|(o, s)| build(o, &s.history)).collect();
                let recv: Vec<(&str, &MCTPSMBusContext)> = vec![("addressee", &rcs[0]), ("addressee-with-sender-eid", &rcs[1])];
                one(acc, &spec, &rspecs, &recv, &sender, call, dst, i);
            }
        });
    }
    // receivers in every state reached by <= 2 run-length symbols (an event repeated 1..17 times):
    // the library's own packets must still be accepted whatever the receiver went through
    {
        let rcfg = Cfg { addr: 0x2A, msg_types: vec![0x7E, 0x05], vendors: vec![(0, 0x1414, 4), (1, 0xDEADBEEF, 9)] };
        let ev = super::stateprops::runseq_events(&rcfg);
        let reps = super::stateprops::RUN_REPEATS;
        let ns = (ev.len() * reps.len()) as u64;
        let calls: Vec<EncCall> = vec![
            EncCall::Vendor { fmt: 0, data: 0x1AF4, num: 4, msg: vec![0x11, 0x22, 0x33] },
            EncCall::Raw { half: Half::Req, writer: Writer::Spdm, hdr: None, data: vec![0x10, 0x84, 0x00, 0x00] },
            EncCall::ReqGetVersion { q: 0 },
            EncCall::RespVersion { cc: 0 },
            EncCall::RespUuid { cc: 3, uuid: U2 },
        ];
        let nc = calls.len() as u64;
        run.sweep("5 calls x receivers after every history of <= 2 run-length symbols (11 events x 9 repeat counts)", nc * (1 + ns + ns * ns), |acc, i| {
            let call = &calls[(i % nc) as usize];
            let mut r = i / nc;
            let mut hist: Vec<Event> = vec![];
            let syms: Vec<u64> = if r == 0 {
                vec![]
            } else if r <= ns {
                vec![r - 1]
            } else {
                r -= 1 + ns;
                vec![r / ns, r % ns]
            };
            for s in syms {
                for _ in 0..reps[(s % reps.len() as u64) as usize] {
                    hist.push(ev[(s / reps.len() as u64) as usize].clone());
                }
            }
            let spec = CtxSpec::fresh(Cfg::simple(0x23));
            let so = Owned::new(&spec.cfg);
            let sender = so.ctx();
            let rspecs = vec![CtxSpec { cfg: rcfg.clone(), history: hist }, CtxSpec::fresh(Cfg::bare(0x6E))];
            let ros: Vec<Owned> = rspecs.iter().map(|s| Owned::new(&s.cfg)).collect();
            let rcs: Vec<MCTPSMBusContext> = ros.iter().zip(&rspecs).map(|(o, s)| build(o, &s.history)).collect();
            let recv: Vec<(&str, &MCTPSMBusContext)> = vec![("addressee", &rcs[0]), ("addressee-with-sender-eid", &rcs[1])];
            one(acc, &spec, &rspecs, &recv, &sender, call, 0x2A, i);
        });
    }
    let basic = basic_calls();
    let addrs = if tier.thorough() { Addrs::All7 } else { Addrs::List(vec![(0x23, 0x34), (0, 0), (0x7F, 0x7F), (0x55, 0x2A), (1, 0x7E), (0x34, 0x23), (0x7E, 0x01)]) };
    sweep(run, "30 kinds x 2 tuples x addresses", basic.len() as u64, &|i| basic[i as usize].clone(), &addrs);
}

pub fn replay(case: &Value) -> Result<ReplayOut, String> {
    if case["check"].as_str() == Some("encseq") {
        return super::encprops::replay_enc("C01", case);
    }
    let spec: CtxSpec = get_de(case, "sender")?;
    let rspecs: Vec<CtxSpec> = get_de(case, "receivers")?;
    let call: EncCall = get_de(case, "call")?;
    let dst = get_u64(case, "dst")? as u8;
    let so = Owned::new(&spec.cfg);
    let sender = build(&so, &spec.history);
    let ros: Vec<Owned> = rspecs.iter().map(|s| Owned::new(&s.cfg)).collect();
    let rcs: Vec<MCTPSMBusContext> = ros.iter().zip(&rspecs).map(|(o, s)| build(o, &s.history)).collect();
    let names = if rspecs.len() == 2 { ["receiver-with-history", "other", "", "", "", ""] } else { ["fresh", "bare", "dirty", "own-config", "eid-equals-sender", "r5"] };
    let mut recv: Vec<(&str, &MCTPSMBusContext)> = rcs.iter().enumerate().map(|(k, c)| (names[k.min(5)], c)).collect();
    recv.push(("sender", &sender));
    let j = judge(&sender, &recv, spec.cfg.addr, build_ref(&spec).eid_resp, &call, dst, false, true);
    Ok(ReplayOut { violations: j.viols.into_iter().map(|(k, d)| format!("{}: {}", k, d)).collect(), observed: j.observed })
}
