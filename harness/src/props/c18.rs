//! C18 — header views read and write exactly their documented bit positions.
use super::*;
use crate::engine::{background, ReplayOut};
use crate::refmodel::*;
use crate::trap::trap;
use crate::types::*;
use libmctp::base_packet::{MCTPMessageBodyHeader, MCTPTransportHeader};
use libmctp::control_packet::MCTPControlMessageHeader;
use libmctp::smbus_proto::{MCTPSMBusHeader, SMBusRoutingInformationUpdateEntry};
use libmctp::vendor_packets::{IANAMessageFormat, PCIMessageFormat};
use serde_json::{json, Value};

#[derive(Clone, Copy, PartialEq, Eq, Debug)]
enum View {
    Smbus,
    Transport,
    Body,
    Control,
    Routing,
    Pci,
    Iana,
}

const VIEWS: [View; 7] = [View::Smbus, View::Transport, View::Body, View::Control, View::Routing, View::Pci, View::Iana];

impl View {
    fn name(self) -> &'static str {
        match self {
            View::Smbus => "MCTPSMBusHeader",
            View::Transport => "MCTPTransportHeader",
            View::Body => "MCTPMessageBodyHeader",
            View::Control => "MCTPControlMessageHeader",
            View::Routing => "SMBusRoutingInformationUpdateEntry",
            View::Pci => "PCIMessageFormat",
            View::Iana => "IANAMessageFormat",
        }
    }
    fn from_name(s: &str) -> Option<View> {
        VIEWS.iter().copied().find(|v| v.name() == s)
    }
    fn bytes(self) -> usize {
        match self {
            View::Body => 1,
            View::Control | View::Pci => 2,
            _ => 4,
        }
    }
    fn fields(self) -> &'static [Field] {
        match self {
            View::Smbus => &SMBUS_FIELDS,
            View::Transport => &TRANSPORT_FIELDS,
            View::Body => &BODY_FIELDS,
            View::Control => &CONTROL_FIELDS,
            View::Routing => &ROUTING_FIELDS,
            View::Pci | View::Iana => &[],
        }
    }
    /// number of public fields (PCI/IANA have one wide field)
    fn nfields(self) -> usize {
        match self {
            View::Pci | View::Iana => 1,
            v => v.fields().len(),
        }
    }
    fn field_name(self, f: usize) -> &'static str {
        match self {
            View::Pci | View::Iana => "vendor_id",
            v => v.fields()[f].name,
        }
    }
}

const MAXF: usize = 8;

/// All public getters of a view on a raw buffer (library side).
#[inline]
fn lib_get(view: View, raw: &[u8; 4]) -> [u32; MAXF] {
    let mut o = [0u32; MAXF];
    match view {
        View::Smbus => {
            let h = MCTPSMBusHeader::new_from_buf(*raw);
            o[0] = h.dest_read_write() as u32;
            o[1] = h.dest_slave_addr() as u32;
            o[2] = h.command_code() as u32;
            o[3] = h.byte_count() as u32;
            o[4] = h.source_read_write() as u32;
            o[5] = h.source_slave_addr() as u32;
        }
        View::Transport => {
            let h = MCTPTransportHeader(*raw);
            o[0] = h.hdr_version() as u32;
            o[1] = h.dest_endpoint_id() as u32;
            o[2] = h.source_endpoint_id() as u32;
            o[3] = h.som() as u32;
            o[4] = h.eom() as u32;
            o[5] = h.pkt_seq() as u32;
            o[6] = h.to() as u32;
            o[7] = h.msg_tag() as u32;
        }
        View::Body => {
            let h = MCTPMessageBodyHeader([raw[0]]);
            o[0] = h.msg_type() as u32;
        }
        View::Control => {
            let h = MCTPControlMessageHeader::new_from_buf([raw[0], raw[1]]);
            o[0] = h.rq() as u32;
            o[1] = h.d() as u32;
            o[2] = h.instance_id() as u32;
            o[3] = h.command_code() as u32;
        }
        View::Routing => {
            let h = SMBusRoutingInformationUpdateEntry::new_from_buf(*raw);
            o[0] = h.entry_type() as u32;
            o[1] = h.eid_range_size() as u32;
            o[2] = h.first_eid() as u32;
            o[3] = h.physical_address() as u32;
        }
        View::Pci => {
            let h = PCIMessageFormat::new_from_buf([raw[0], raw[1]]);
            o[0] = h.vendor_id() as u32;
        }
        View::Iana => {
            let h = IANAMessageFormat::new_from_buf(*raw);
            o[0] = h.vendor_id();
        }
    }
    o
}

#[inline]
fn ref_get(view: View, raw: &[u8; 4]) -> [u32; MAXF] {
    let mut o = [0u32; MAXF];
    match view {
        View::Pci => o[0] = ((raw[0] as u32) << 8) | raw[1] as u32,
        View::Iana => o[0] = u32::from_be_bytes(*raw),
        v => {
            for (i, f) in v.fields().iter().enumerate() {
                o[i] = f.get(raw) as u32;
            }
        }
    }
    o
}

/// Apply setter `f` with argument `v` (library side); returns the buffer.
#[inline]
fn lib_set(view: View, raw: &[u8; 4], f: usize, v: u32) -> [u8; 4] {
    let mut out = *raw;
    let v8 = v as u8;
    match view {
        View::Smbus => {
            let mut h = MCTPSMBusHeader::new_from_buf(*raw);
            match f {
                0 => h.set_dest_read_write(v8),
                1 => h.set_dest_slave_addr(v8),
                2 => h.set_command_code(v8),
                3 => h.set_byte_count(v8),
                4 => h.set_source_read_write(v8),
                _ => h.set_source_slave_addr(v8),
            }
            out = h.0;
        }
        View::Transport => {
            let mut h = MCTPTransportHeader(*raw);
            match f {
                0 => h.set_hdr_version(v8),
                1 => h.set_dest_endpoint_id(v8),
                2 => h.set_source_endpoint_id(v8),
                3 => h.set_som(v8),
                4 => h.set_eom(v8),
                5 => h.set_pkt_seq(v8),
                6 => h.set_to(v8),
                _ => h.set_msg_tag(v8),
            }
            out = h.0;
        }
        View::Body => {
            let mut h = MCTPMessageBodyHeader([raw[0]]);
            h.set_msg_type(v8);
            out[0] = h.0[0];
        }
        View::Control => {
            let mut h = MCTPControlMessageHeader::new_from_buf([raw[0], raw[1]]);
            match f {
                0 => h.set_rq(v8),
                1 => h.set_d(v8),
                2 => h.set_instance_id(v8),
                _ => h.set_command_code(v8),
            }
            out[0] = h.0[0];
            out[1] = h.0[1];
        }
        View::Routing => {
            let mut h = SMBusRoutingInformationUpdateEntry::new_from_buf(*raw);
            match f {
                0 => h.set_entry_type(v8),
                1 => h.set_eid_range_size(v8),
                2 => h.set_first_eid(v8),
                _ => h.set_physical_address(v8),
            }
            out = h.0;
        }
        View::Pci => {
            let mut h = PCIMessageFormat::new_from_buf([raw[0], raw[1]]);
            h.set_vendor_id(v as u16);
            out[0] = h.0[0];
            out[1] = h.0[1];
        }
        View::Iana => {
            let mut h = IANAMessageFormat::new_from_buf(*raw);
            h.set_vendor_id(v);
            out = h.0;
        }
    }
    out
}

#[inline]
fn ref_set(view: View, raw: &[u8; 4], f: usize, v: u32) -> [u8; 4] {
    let mut out = *raw;
    match view {
        View::Pci => {
            out[0] = (v >> 8) as u8;
            out[1] = v as u8;
        }
        View::Iana => out = v.to_be_bytes(),
        vw => vw.fields()[f].set(&mut out, v as u8),
    }
    out
}

fn judge_get(view: View, raw: &[u8; 4]) -> (String, Option<String>) {
    match trap(|| lib_get(view, raw)) {
        Err(m) => (format!("panic {}", m), Some(format!("{} getter panicked on raw {}: {}", view.name(), hex(&raw[..view.bytes()]), m))),
        Ok(got) => {
            let exp = ref_get(view, raw);
            let obs = format!("{:?}", &got[..view.nfields()]);
            for f in 0..view.nfields() {
                if got[f] != exp[f] {
                    return (
                        obs,
                        Some(format!(
                            "{}::{}() on raw {} = {:#x}, wire layout says {:#x}",
                            view.name(),
                            view.field_name(f),
                            hex(&raw[..view.bytes()]),
                            got[f],
                            exp[f]
                        )),
                    );
                }
            }
            (obs, None)
        }
    }
}

fn judge_set(view: View, raw: &[u8; 4], f: usize, v: u32) -> (String, Option<String>) {
    match trap(|| lib_set(view, raw, f, v)) {
        Err(m) => (format!("panic {}", m), Some(format!("{}::set_{}({:#x}) panicked: {}", view.name(), view.field_name(f), v, m))),
        Ok(got) => {
            let exp = ref_set(view, raw, f, v);
            let n = view.bytes();
            let obs = hex(&got[..n]);
            if got[..n] != exp[..n] {
                (
                    obs.clone(),
                    Some(format!(
                        "{}::set_{}({:#x}) on raw {} gives {}, expected {} (only the field's bits, value truncated to its width)",
                        view.name(),
                        view.field_name(f),
                        v,
                        hex(&raw[..n]),
                        obs,
                        hex(&exp[..n])
                    )),
                )
            } else {
                (obs, None)
            }
        }
    }
}

pub fn judge_transport_validator(raw: &[u8; 4], version: u8) -> (String, Option<String>) {
    match trap(|| MCTPTransportHeader::new_from_buf(*raw, version).map(|h| h.0)) {
        Err(m) => (format!("panic {}", m), Some(format!("MCTPTransportHeader::new_from_buf panicked: {}", m))),
        Ok(r) => {
            let exp_ok = raw[0] & 0xF0 == 0 && raw[0] & 0x0F == version;
            let obs = format!("{:?}", r.as_ref().map(hex_arr));
            match r {
                Ok(b) if exp_ok && b == *raw => (obs, None),
                Err(()) if !exp_ok => (obs, None),
                _ => (
                    obs.clone(),
                    Some(format!(
                        "MCTPTransportHeader::new_from_buf({}, version {:#x}) = {}, expected {}",
                        hex(raw),
                        version,
                        obs,
                        if exp_ok { "Ok with the same bytes" } else { "Err" }
                    )),
                ),
            }
        }
    }
}

fn hex_arr(b: &[u8; 4]) -> String {
    hex(b)
}

pub fn judge_body_validator(b: u8) -> (String, Option<String>) {
    match trap(|| MCTPMessageBodyHeader::new_from_buf([b]).map(|h| h.0[0])) {
        Err(m) => (format!("panic {}", m), Some(format!("MCTPMessageBodyHeader::new_from_buf panicked: {}", m))),
        Ok(r) => {
            let exp_ok = b & 0x80 == 0 && supported_type(b & 0x7F);
            let obs = format!("{:?}", r);
            match r {
                Ok(x) if exp_ok && x == b => (obs, None),
                Err(()) if !exp_ok => (obs, None),
                _ => (obs.clone(), Some(format!("MCTPMessageBodyHeader::new_from_buf([{:#04x}]) = {}, expected {}", b, obs, if exp_ok { "Ok" } else { "Err" }))),
            }
        }
    }
}

fn raw_of(view: View, i: u64) -> [u8; 4] {
    match view.bytes() {
        1 => [i as u8, 0, 0, 0],
        2 => [(i >> 8) as u8, i as u8, 0, 0],
        _ => (i as u32).to_be_bytes(),
    }
}

/// Pre-images for setter checks on 4-byte views: lanes(4 bytes) x 3 backgrounds.
fn preimage4(i: u64) -> [u8; 4] {
    let mut ix = crate::engine::Ix(i);
    let val = ix.take(256) as u8;
    let lane = ix.take(4) as usize;
    let bg = ix.take(3);
    let mut raw = [0u8; 4];
    for (k, r) in raw.iter_mut().enumerate() {
        *r = background(bg, k);
    }
    raw[lane] = val;
    raw
}
const PRE4: u64 = 256 * 4 * 3;

fn case_get(view: View, raw: &[u8; 4]) -> Value {
    json!({"prop": "C18", "check": "get", "view": view.name(), "raw": hex(raw)})
}
fn case_set(view: View, raw: &[u8; 4], f: usize, v: u32) -> Value {
    json!({"prop": "C18", "check": "set", "view": view.name(), "raw": hex(raw), "field": f, "value": v})
}

pub fn run(run: &mut Run) {
    let thorough = run.tier.thorough();
    run.rule = "getters: every raw value of every view (2^8/2^16/2^32); setters: every field x every argument value x pre-images (all raw values for 1-2 byte views, byte lanes x 3 backgrounds for 4-byte views; thorough adds every 16-bit half against both extremes); validators: all inputs; non-trivial = raw buffers with at least one non-zero bit outside the field under test / buffers the validator accepts".into();
    run.bound("getter_raw_values", json!({"1-byte": 256, "2-byte": 65536, "4-byte": if thorough { json!(1u64 << 32) } else { json!("6 byte pairs x 65536 values x 4 backgrounds") }}));
    run.bound("setter_argument_values", json!({"u8 fields": 256, "PCI vendor_id": 65536, "IANA vendor_id": "byte lanes x 4 backgrounds + 16-bit halves"}));
    run.assume("layout table LAYOUTS (refmodel.rs) transcribed from the library's rustdoc and DSP0236 Table 1/section 11, DSP0237 Table 1");

    // --- getters ---------------------------------------------------------
    for view in VIEWS {
        // quick tier, 4-byte views: every value of every byte pair (6 pairs x 65 536) over
        // 4 backgrounds of the other two bytes.  A u8-typed getter reads at most 8
        // contiguous bits, hence at most two adjacent bytes, so any shifted or widened
        // range is exposed by some pair; the thorough tier walks all 2^32 raw values.
        let pairs_mode = view.bytes() == 4 && !thorough;
        let n: u64 = if pairs_mode { 6 * 65536 * 4 } else { 1u64 << (8 * view.bytes()) };
        let raw_of = move |view: View, i: u64| -> [u8; 4] {
            if !pairs_mode {
                return raw_of(view, i);
            }
            const PAIRS: [(usize, usize); 6] = [(0, 1), (1, 2), (2, 3), (0, 2), (1, 3), (0, 3)];
            let mut ix = crate::engine::Ix(i);
            let a = ix.take(256) as u8;
            let b = ix.take(256) as u8;
            let (pa, pb) = PAIRS[ix.take(6) as usize];
            let bg = ix.take(4);
            let mut raw = [0u8; 4];
            for (k, r) in raw.iter_mut().enumerate() {
                *r = background(bg, k);
            }
            raw[pa] = a;
            raw[pb] = b;
            raw
        };
        let label = if pairs_mode { format!("get {} (byte pairs x backgrounds)", view.name()) } else { format!("get {} (all raw values)", view.name()) };
        run.sweep_chunked(&label, n, move |acc, lo, hi| {
            let mut bad = 0u64;
            // fast path: a whole batch under one trap; the slow per-value judge only
            // for batches that contain a mismatch or a panic
            let mut b0 = lo;
            while b0 < hi {
                let b1 = (b0 + 8192).min(hi);
                let clean = matches!(
                    trap(|| (b0..b1).all(|i| {
                        let raw = raw_of(view, i);
                        lib_get(view, &raw) == ref_get(view, &raw)
                    })),
                    Ok(true)
                );
                if !clean {
                    for i in b0..b1 {
                        let raw = raw_of(view, i);
                        let (_, v) = judge_get(view, &raw);
                        if let Some(d) = v {
                            bad += 1;
                            if bad <= 4 {
                                acc.violation(raw.iter().map(|b| b.count_ones() as u64).sum(), "getter", d, || case_get(view, &raw));
                            } else {
                                acc.viol_count += 1;
                            }
                        }
                    }
                }
                b0 = b1;
            }
            for i in (lo..hi).filter(|i| i % 0x0101_0101 == 0x37) {
                let raw = raw_of(view, i);
                acc.sample(|| json!({"view": view.name(), "raw": hex(&raw[..view.bytes()]), "getters": format!("{:?}", &ref_get(view, &raw)[..view.nfields()])}));
            }
            let k = hi - lo;
            acc.evals += k;
            acc.trans += k * view.nfields() as u64;
            acc.validated += k;
            *acc.hist.entry(format!("get.{}", view.name())).or_insert(0) += k;
            // distinct raw values are distinct states by construction (index <-> raw bijection);
            // the fingerprint set only keeps a stride of them
            for i in (lo..hi).filter(|i| i % 4099 == 0) {
                acc.state(crate::types::Fnv::default().u64(view as u64).u64(i).finish());
                if i != 0 {
                    acc.nontrivial(crate::types::Fnv::default().u64(view as u64 + 100).u64(i).finish());
                }
            }
        });
    }

    // --- setters ---------------------------------------------------------
    for view in VIEWS {
        let nf = view.nfields() as u64;
        match view {
            View::Pci => {
                // all 65 536 ids x pre-images {0000, ffff, a55a, walking}
                run.sweep("set PCIMessageFormat.vendor_id", 65536 * 8, move |acc, i| {
                    let v = (i % 65536) as u32;
                    let bg = i / 65536;
                    // 4 backgrounds, then pre-images related to the value: itself, byte-swapped, complemented, +1
                    let v16 = v as u16;
                    let rel = |x: u16| [(x >> 8) as u8, x as u8, 0, 0];
                    let raw = match bg {
                        0..=3 => [background(bg, 0), background(bg, 1), 0, 0],
                        4 => rel(v16),
                        5 => rel(v16.swap_bytes()),
                        6 => rel(!v16),
                        _ => rel(v16.wrapping_add(1)),
                    };
                    acc.evals += 1;
                    acc.trans += 1;
                    acc.validated += 1;
                    let (_, viol) = judge_set(view, &raw, 0, v);
                    if let Some(d) = viol {
                        acc.violation(1, "setter", d, || case_set(view, &raw, 0, v));
                    }
                    acc.nontrivial(crate::types::Fnv::default().u64(0x9C1).u64(i).finish());
                });
            }
            View::Iana => {
                // lanes(u32) x 4 backgrounds of the value, plus both 16-bit halves fully; x 9 pre-images:
                // 3 backgrounds and 6 buffers *related to the value being written* (its own wire image,
                // byte-reversed, half-swapped, complemented, rotated, off by one) -- a setter that skips
                // the store when it thinks nothing changes only errs on such pairs
                let lanes = 256 * 4 * 4;
                let halves = 65536 * 2 * 2;
                run.sweep("set IANAMessageFormat.vendor_id", (lanes + halves) * 9, move |acc, i| {
                    let pre = i % 9;
                    let j = i / 9;
                    let v: u32 = if j < lanes {
                        let mut ix = crate::engine::Ix(j);
                        let val = ix.take(256) as u8;
                        let lane = ix.take(4) as usize;
                        let bg = ix.take(4);
                        let mut b = [0u8; 4];
                        for (k, x) in b.iter_mut().enumerate() {
                            *x = background(bg, k);
                        }
                        b[lane] = val;
                        u32::from_be_bytes(b)
                    } else {
                        let mut ix = crate::engine::Ix(j - lanes);
                        let h = ix.take(65536) as u32;
                        let which = ix.take(2);
                        let other = if ix.take(2) == 0 { 0x0000u32 } else { 0xFFFF };
                        if which == 0 { (h << 16) | other } else { (other << 16) | h }
                    };
                    let raw = match pre {
                        0..=2 => [background(pre, 0), background(pre, 1), background(pre, 2), background(pre, 3)],
                        3 => v.to_be_bytes(),
                        4 => v.to_le_bytes(),
                        5 => v.rotate_left(16).to_be_bytes(),
                        6 => (!v).to_be_bytes(),
                        7 => v.rotate_left(8).to_be_bytes(),
                        _ => v.wrapping_add(1).to_be_bytes(),
                    };
                    acc.evals += 1;
                    acc.trans += 1;
                    acc.validated += 1;
                    let (_, viol) = judge_set(view, &raw, 0, v);
                    if let Some(d) = viol {
                        acc.violation(1, "setter", d, || case_set(view, &raw, 0, v));
                    }
                    acc.nontrivial(crate::types::Fnv::default().u64(0x1A7A).u64(i).finish());
                });
            }
            _ => {
                let npre: u64 = match view.bytes() {
                    1 => 256,
                    2 => 65536,
                    _ => PRE4 + if thorough { 65536 * 2 * 2 } else { 0 },
                };
                run.sweep_chunked(&format!("set {}", view.name()), nf * 256 * npre, move |acc, lo, hi| {
                    for i in lo..hi {
                        let mut ix = crate::engine::Ix(i);
                        let v = ix.take(256) as u32;
                        let f = ix.take(nf) as usize;
                        let p = ix.take(npre);
                        let raw = match view.bytes() {
                            1 | 2 => raw_of(view, p),
                            _ => {
                                if p < PRE4 {
                                    preimage4(p)
                                } else {
                                    let mut jx = crate::engine::Ix(p - PRE4);
                                    let h = jx.take(65536) as u32;
                                    let which = jx.take(2);
                                    let other = if jx.take(2) == 0 { 0u32 } else { 0xFFFF };
                                    (if which == 0 { (h << 16) | other } else { (other << 16) | h }).to_be_bytes()
                                }
                            }
                        };
                        let same = match trap(|| lib_set(view, &raw, f, v)) {
                            Ok(g) => g == ref_set(view, &raw, f, v),
                            Err(_) => false,
                        };
                        if !same {
                            let (_, viol) = judge_set(view, &raw, f, v);
                            acc.violation(
                                raw.iter().map(|b| b.count_ones() as u64).sum::<u64>() + v.count_ones() as u64,
                                "setter",
                                viol.unwrap_or_default(),
                                || case_set(view, &raw, f, v),
                            );
                        }
                        if i % 4099 == 0 {
                            acc.state(crate::types::Fnv::default().u64(view as u64 + 50).u64(i).finish());
                            if raw != [0; 4] {
                                acc.nontrivial(crate::types::Fnv::default().u64(view as u64 + 150).u64(i).finish());
                            }
                        }
                        if i % 1_000_003 == 17 {
                            acc.sample(|| json!({"view": view.name(), "raw": hex(&raw[..view.bytes()]), "set": view.field_name(f), "value": v, "result": hex(&ref_set(view, &raw, f, v)[..view.bytes()])}));
                        }
                    }
                    let k = hi - lo;
                    acc.evals += k;
                    acc.trans += k;
                    acc.validated += k;
                    *acc.hist.entry(format!("set.{}", view.name())).or_insert(0) += k;
                });
            }
        }
    }

    // --- validators ------------------------------------------------------
    let vn: u64 = if thorough { 1u64 << 32 } else { 1u64 << 24 };
    run.sweep_chunked(if thorough { "MCTPTransportHeader::new_from_buf, all 2^32 buffers at version 1" } else { "MCTPTransportHeader::new_from_buf, all 2^24 buffers with last byte 0x5A at version 1" }, vn, move |acc, lo, hi| {
        let mut okc = 0u64;
        for i in lo..hi {
            let raw = if thorough { (i as u32).to_be_bytes() } else { (((i as u32) << 8) | 0x5A).to_be_bytes() };
            let exp_ok = raw[0] == 0x01;
            let good = match trap(|| MCTPTransportHeader::new_from_buf(raw, 1).map(|h| h.0)) {
                Ok(Ok(b)) => exp_ok && b == raw,
                Ok(Err(())) => !exp_ok,
                Err(_) => false,
            };
            if exp_ok {
                okc += 1;
            }
            if !good {
                let (_, v) = judge_transport_validator(&raw, 1);
                acc.violation(0, "transport-validator", v.unwrap_or_default(), || json!({"prop": "C18", "check": "validate-transport", "raw": hex(&raw), "version": 1}));
            }
        }
        let k = hi - lo;
        acc.evals += k;
        acc.trans += k;
        acc.validated += k;
        *acc.hist.entry("validate.transport.accepting".into()).or_insert(0) += okc;
        *acc.hist.entry("validate.transport.rejecting".into()).or_insert(0) += k - okc;
    });
    run.sweep("MCTPTransportHeader::new_from_buf, byte0 x version x lanes(bytes 1..3)", 256 * 256 * 3 * 256, |acc, i| {
        let mut ix = crate::engine::Ix(i);
        let b0 = ix.take(256) as u8;
        let ver = ix.take(256) as u8;
        let lane = ix.take(3) as usize;
        let val = ix.take(256) as u8;
        let mut raw = [b0, 0x11, 0x22, 0x33];
        raw[1 + lane] = val;
        acc.evals += 1;
        acc.trans += 1;
        acc.validated += 1;
        let (_, v) = judge_transport_validator(&raw, ver);
        if let Some(d) = v {
            acc.violation(0, "transport-validator", d, || json!({"prop": "C18", "check": "validate-transport", "raw": hex(&raw), "version": ver}));
        }
        if b0 & 0xF0 == 0 && b0 == ver {
            acc.nontrivial(crate::types::Fnv::default().u64(0x7A11).u64(i).finish());
        }
    });
    run.seq("MCTPMessageBodyHeader::new_from_buf, all 256", 256, |acc| {
        for b in 0..=255u8 {
            acc.evals += 1;
            acc.trans += 1;
            acc.validated += 1;
            let (obs, v) = judge_body_validator(b);
            acc.outcome(if obs.starts_with("Ok") { "validate.body.ok" } else { "validate.body.err" });
            acc.state(crate::types::Fnv::default().u64(0xB0D).u64(b as u64).finish());
            if let Some(d) = v {
                acc.violation(0, "body-validator", d, || json!({"prop": "C18", "check": "validate-body", "byte": b}));
            }
        }
        256
    });
    run.extra.insert(
        "note_states".into(),
        json!("states/distinct_nontrivial fingerprint a 1/4099 stride of the index spaces (each index is a distinct raw value by construction); the full counts are the sub-space cardinalities"),
    );
}

fn raw4(case: &Value) -> Result<[u8; 4], String> {
    let r = get_hex(case, "raw")?;
    let mut raw = [0u8; 4];
    for (i, b) in r.iter().take(4).enumerate() {
        raw[i] = *b;
    }
    Ok(raw)
}

pub fn replay(case: &Value) -> Result<ReplayOut, String> {
    let (observed, v) = match get_str(case, "check")? {
        "get" => {
            let view = View::from_name(get_str(case, "view")?).ok_or("bad view")?;
            judge_get(view, &raw4(case)?)
        }
        "set" => {
            let view = View::from_name(get_str(case, "view")?).ok_or("bad view")?;
            judge_set(view, &raw4(case)?, get_u64(case, "field")? as usize, get_u64(case, "value")? as u32)
        }
        "validate-transport" => judge_transport_validator(&raw4(case)?, get_u64(case, "version")? as u8),
        "validate-body" => judge_body_validator(get_u64(case, "byte")? as u8),
        o => return Err(format!("unknown check {}", o)),
    };
    Ok(ReplayOut { violations: v.into_iter().collect(), observed })
}
