//! Shared machinery: sharded exhaustive sweeps, counters, violation and
//! known-finding bookkeeping, evidence and replay files.
use crate::types::*;
use serde_json::{json, Map, Value};
use std::collections::{BTreeMap, HashSet};
use std::sync::atomic::{AtomicU64, Ordering};
use std::sync::Mutex;
use std::time::Instant;

#[derive(Clone, Copy, PartialEq, Eq, Debug)]
pub enum Tier {
    Quick,
    Thorough,
}

impl Tier {
    pub fn name(&self) -> &'static str {
        match self {
            Tier::Quick => "quick",
            Tier::Thorough => "thorough",
        }
    }
    pub fn thorough(&self) -> bool {
        *self == Tier::Thorough
    }
}

/// Fingerprint budget per sub-space.  A sub-space of at most this many cases
/// has its `state` / `nontrivial` fingerprints counted exactly; a larger one is
/// counted on a deterministic hash sample (fingerprints whose low k bits are
/// zero, k fixed by the sub-space's cardinality), so that every reported count
/// is a function of the space alone -- never of thread timing -- and a lower
/// bound on the number of distinct cases.
pub const FP_BUDGET: u64 = 1 << 17;
/// Safety net for the merged sets (never reached with the budget above).
pub const FP_CAP: usize = 24_000_000;
const VIOL_KEEP: usize = 64;

#[derive(Clone, Debug)]
pub struct Violation {
    /// ordering key: fewest deviations / shortest history first
    pub weight: u64,
    pub kind: String,
    pub detail: String,
    /// replayable description (must contain "prop" and "check")
    pub case: Value,
}

/// Per-thread accumulator, merged in shard order.
#[derive(Default)]
pub struct Acc {
    pub evals: u64,
    pub trans: u64,
    pub validated: u64,
    pub skipped_known: u64,
    pub states: HashSet<u64>,
    pub distinct: HashSet<u64>,
    pub states_overflow: u64,
    pub distinct_overflow: u64,
    /// sampling mask of the sub-space being walked (0 = exact)
    pub mask: u64,
    pub hist: BTreeMap<String, u64>,
    pub hist2: std::collections::HashMap<(&'static str, &'static str), u64>,
    pub viols: Vec<Violation>,
    pub viol_count: u64,
    pub known: BTreeMap<String, (u64, Value)>,
    pub samples: Vec<Value>,
}

impl Acc {
    #[inline]
    pub fn state(&mut self, fp: u64) {
        if fp & self.mask == 0 {
            self.states.insert(fp);
        }
    }
    #[inline]
    pub fn nontrivial(&mut self, fp: u64) {
        if fp & self.mask == 0 {
            self.distinct.insert(fp);
        }
    }
    #[inline]
    pub fn outcome(&mut self, label: &str) {
        if let Some(c) = self.hist.get_mut(label) {
            *c += 1;
        } else {
            self.hist.insert(label.to_string(), 1);
        }
    }
    /// allocation-free histogram bump for hot loops
    #[inline]
    pub fn outcome2(&mut self, a: &'static str, b: &'static str) {
        *self.hist2.entry((a, b)).or_insert(0) += 1;
    }
    pub fn violation(&mut self, weight: u64, kind: &str, detail: String, case: impl FnOnce() -> Value) {
        self.viol_count += 1;
        if self.viols.len() < VIOL_KEEP {
            self.viols.push(Violation { weight, kind: kind.to_string(), detail, case: case() });
        }
    }
    pub fn known(&mut self, id: &str, sample: impl FnOnce() -> Value) {
        if let Some(e) = self.known.get_mut(id) {
            e.0 += 1;
        } else {
            self.known.insert(id.to_string(), (1, sample()));
        }
    }
    pub fn sample(&mut self, v: impl FnOnce() -> Value) {
        if self.samples.len() < 4 {
            self.samples.push(v());
        }
    }
    fn merge(&mut self, o: Acc) {
        self.evals += o.evals;
        self.trans += o.trans;
        self.validated += o.validated;
        self.skipped_known += o.skipped_known;
        self.states_overflow += o.states_overflow;
        self.distinct_overflow += o.distinct_overflow;
        for s in o.states {
            if self.states.len() < FP_CAP {
                self.states.insert(s);
            } else if !self.states.contains(&s) {
                self.states_overflow += 1;
            }
        }
        for s in o.distinct {
            if self.distinct.len() < FP_CAP {
                self.distinct.insert(s);
            } else if !self.distinct.contains(&s) {
                self.distinct_overflow += 1;
            }
        }
        for (k, v) in o.hist {
            *self.hist.entry(k).or_insert(0) += v;
        }
        for ((a, b), v) in o.hist2 {
            *self.hist.entry(format!("{}.{}", a, b)).or_insert(0) += v;
        }
        self.viol_count += o.viol_count;
        for v in o.viols {
            self.viols.push(v);
        }
        self.viols.sort_by(|a, b| (a.weight, &a.kind, &a.detail).cmp(&(b.weight, &b.kind, &b.detail)));
        self.viols.truncate(VIOL_KEEP * 4);
        for (k, (n, s)) in o.known {
            let e = self.known.entry(k).or_insert((0, s));
            e.0 += n;
        }
        for s in o.samples {
            if self.samples.len() < 12 {
                self.samples.push(s);
            }
        }
    }
}

pub struct SubSpace {
    pub name: String,
    pub cardinality: u64,
    pub visited: u64,
}

pub struct Run {
    pub prop: String,
    pub tier: Tier,
    pub seed: u64,
    pub start: Instant,
    pub acc: Acc,
    pub subspaces: Vec<SubSpace>,
    pub bounds: Map<String, Value>,
    pub assumptions: Vec<String>,
    pub rule: String,
    pub caps: Vec<String>,
    pub extra: Map<String, Value>,
    pub threads: usize,
    /// sub-spaces whose fingerprints are hash-sampled: (name, one in N)
    pub sampled: Vec<(String, u64)>,
    /// failures of the machinery itself (engine disagreement, ...): exit 2
    pub machinery_errors: Vec<String>,
}

pub fn n_threads() -> usize {
    std::env::var("MCX_THREADS")
        .ok()
        .and_then(|s| s.parse().ok())
        .unwrap_or_else(|| std::thread::available_parallelism().map(|n| n.get()).unwrap_or(4))
        .clamp(1, 64)
}

impl Run {
    pub fn new(prop: &str, tier: Tier, seed: u64) -> Run {
        Run {
            prop: prop.to_string(),
            tier,
            seed,
            start: Instant::now(),
            acc: Acc::default(),
            subspaces: vec![],
            bounds: Map::new(),
            assumptions: vec![],
            rule: String::new(),
            caps: vec![],
            extra: Map::new(),
            threads: n_threads(),
            sampled: vec![],
            machinery_errors: vec![],
        }
    }

    pub fn bound(&mut self, k: &str, v: impl Into<Value>) {
        self.bounds.insert(k.to_string(), v.into());
    }
    pub fn assume(&mut self, s: &str) {
        self.assumptions.push(s.to_string());
    }

    /// Walk the index space 0..n completely, in parallel.  `f(acc, i)` must be a
    /// pure function of `i` (plus the subject); the set of cases and every count
    /// are independent of thread timing.
    pub fn sweep<F>(&mut self, name: &str, n: u64, f: F)
    where
        F: Fn(&mut Acc, u64) + Sync,
    {
        self.sweep_chunked(name, n, |acc, lo, hi| {
            for i in lo..hi {
                f(acc, i);
            }
        })
    }

    /// As `sweep`, but the callback receives whole index ranges so that it can
    /// set up per-range state (contexts) once.  It must visit every index of the
    /// range.
    pub fn sweep_chunked<F>(&mut self, name: &str, n: u64, f: F)
    where
        F: Fn(&mut Acc, u64, u64) + Sync,
    {
        let t0 = Instant::now();
        // deterministic fingerprint sampling for large sub-spaces (see FP_BUDGET)
        let mask: u64 = if n <= FP_BUDGET { 0 } else { (n / FP_BUDGET).next_power_of_two() - 1 };
        if mask != 0 {
            self.sampled.push((name.to_string(), mask + 1));
        }
        let visited = AtomicU64::new(0);
        let threads = self.threads.min(n.max(1) as usize).max(1);
        let chunk = (n / (threads as u64 * 64)).clamp(1, 1 << 20);
        let next = AtomicU64::new(0);
        let results: Mutex<Vec<(u64, Acc)>> = Mutex::new(vec![]);
        std::thread::scope(|s| {
            for _ in 0..threads {
                s.spawn(|| {
                    crate::trap::install();
                    let mut acc = Acc::default();
                    acc.mask = mask;
                    let mut first = u64::MAX;
                    loop {
                        let lo = next.fetch_add(chunk, Ordering::Relaxed);
                        if lo >= n {
                            break;
                        }
                        first = first.min(lo);
                        let hi = (lo + chunk).min(n);
                        f(&mut acc, lo, hi);
                        visited.fetch_add(hi - lo, Ordering::Relaxed);
                    }
                    results.lock().unwrap().push((first, acc));
                });
            }
        });
        let mut rs = results.into_inner().unwrap();
        rs.sort_by_key(|r| r.0);
        for (_, a) in rs {
            self.acc.merge(a);
        }
        let v = visited.load(Ordering::Relaxed);
        if std::env::var("MCX_TIMING").is_ok() {
            eprintln!("[timing] {:>8.2}s  n={:<12} {}", t0.elapsed().as_secs_f64(), n, name);
        }
        self.subspaces.push(SubSpace { name: name.to_string(), cardinality: n, visited: v });
    }

    /// Sequential section (small spaces, explorers that manage their own threads).
    pub fn seq<F: FnOnce(&mut Acc) -> u64>(&mut self, name: &str, cardinality: u64, f: F) {
        let mut acc = Acc::default();
        let visited = f(&mut acc);
        self.acc.merge(acc);
        self.subspaces.push(SubSpace { name: name.to_string(), cardinality, visited });
    }

    pub fn merge_acc(&mut self, acc: Acc) {
        self.acc.merge(acc);
    }

    pub fn elapsed(&self) -> f64 {
        self.start.elapsed().as_secs_f64()
    }
}

// ---------------------------------------------------------------------------
// Known findings
// ---------------------------------------------------------------------------

#[derive(Clone, Debug)]
pub struct KnownEntry {
    pub status: String,
    pub property: String,
    pub id: String,
    pub what: String,
    pub commit: String,
    /// other properties whose checks also meet this finding
    pub also: Vec<String>,
}

pub fn verif_root() -> String {
    std::env::var("VERIF_ROOT").unwrap_or_else(|_| "/verif".to_string())
}

pub fn out_root() -> String {
    std::env::var("VERIF_OUT").unwrap_or_else(|_| verif_root())
}

pub fn load_known() -> Result<Vec<KnownEntry>, String> {
    let path = format!("{}/known_findings.json", verif_root());
    let txt = std::fs::read_to_string(&path).map_err(|e| format!("{}: {}", path, e))?;
    let v: Value = serde_json::from_str(&txt).map_err(|e| format!("{}: {}", path, e))?;
    let arr = v["findings"].as_array().ok_or("known_findings.json: no findings array")?;
    Ok(arr
        .iter()
        .map(|e| KnownEntry {
            status: e["status"].as_str().unwrap_or("").to_string(),
            property: e["property"].as_str().unwrap_or("").to_string(),
            id: e["id"].as_str().unwrap_or("").to_string(),
            what: e["what"].as_str().unwrap_or("").to_string(),
            commit: e["commit"].as_str().unwrap_or("").to_string(),
            also: e["also"]
                .as_array()
                .map(|a| a.iter().filter_map(|x| x.as_str().map(String::from)).collect())
                .unwrap_or_default(),
        })
        .collect())
}

// ---------------------------------------------------------------------------
// Finishing a run: replay determinism, VIOLATION / KNOWN-FINDING lines, evidence
// ---------------------------------------------------------------------------

pub struct ReplayOut {
    /// one line per violated expectation; empty = the case passes
    pub violations: Vec<String>,
    /// everything observed, canonical text
    pub observed: String,
}

pub type Replayer = fn(&Value) -> Result<ReplayOut, String>;

/// True if at least one of the first 20 violations replays identically twice
/// (or there are none at all).
pub fn some_violation_replays(run: &mut Run, replayer: Replayer) -> bool {
    if run.acc.viols.is_empty() {
        return true;
    }
    run.acc.viols.sort_by(|a, b| (a.weight, &a.kind, &a.detail).cmp(&(b.weight, &b.kind, &b.detail)));
    run.acc.viols.iter().take(20).any(|v| {
        let replayer: Replayer = if v.case["check"].as_str() == Some("iso") { crate::iso::replay } else { replayer };
        match (replayer(&v.case), replayer(&v.case)) {
            (Ok(a), Ok(b)) => a.observed == b.observed && a.violations == b.violations && !a.violations.is_empty(),
            _ => false,
        }
    })
}

/// Returns the process exit code.
pub fn finish(mut run: Run, replayer: Replayer) -> i32 {
    let known_db = match load_known() {
        Ok(k) => k,
        Err(e) => {
            eprintln!("MACHINERY: {}", e);
            return 2;
        }
    };
    let mut exit = 0;
    let mut machinery_fail = false;
    for e in &run.machinery_errors {
        eprintln!("MACHINERY: {}", e);
        machinery_fail = true;
    }

    // sub-space completeness
    let mut exhaustive = run.caps.is_empty();
    for s in &run.subspaces {
        if s.visited != s.cardinality {
            exhaustive = false;
            run.caps.push(format!("sub-space {} visited {} of {}", s.name, s.visited, s.cardinality));
        }
    }

    // known findings observed in this run
    let mut known_lines = vec![];
    let observed_known: Vec<(String, (u64, Value))> =
        run.acc.known.iter().map(|(k, v)| (k.clone(), v.clone())).collect();
    for (id, (n, sample)) in observed_known {
        match known_db
            .iter()
            .find(|e| e.id == id && e.status == "known" && (e.property == run.prop || e.also.contains(&run.prop)))
        {
            Some(e) => {
                println!("KNOWN-FINDING: property={} {} {} ({} cases)", run.prop, id, e.what, n);
                known_lines.push(json!({"id": id, "cases": n, "what": e.what, "sample": sample}));
            }
            None => {
                // a finding class the committed file does not list for this property is a violation
                run.acc.violation(0, "unlisted-finding", format!("finding {} is not listed in known_findings.json for {}", id, run.prop), || {
                    json!({"prop": run.prop, "check": "unlisted-finding", "id": id, "sample": sample})
                });
            }
        }
    }
    for e in known_db.iter().filter(|e| e.status == "fixed" && e.property == run.prop) {
        println!("fixed: property={} {} {}", e.property, e.commit, e.what);
    }

    // violations
    run.acc.viols.sort_by(|a, b| (a.weight, &a.kind, &a.detail).cmp(&(b.weight, &b.kind, &b.detail)));
    let replay_dir = format!("{}/replays", out_root());
    let _ = std::fs::create_dir_all(&replay_dir);
    let mut written = vec![];
    let mut unreproduced: Vec<String> = vec![];
    for (k, v) in run.acc.viols.iter().take(20).enumerate() {
        let path = format!("{}/{}-{}.json", replay_dir, run.prop, k);
        let mut ok_replay = true;
        let mut replay_note = String::new();
        if v.kind != "unlisted-finding" {
            let replayer: Replayer = if v.case["check"].as_str() == Some("iso") { crate::iso::replay } else { replayer };
            match (replayer(&v.case), replayer(&v.case)) {
                (Ok(a), Ok(b)) => {
                    if a.observed != b.observed || a.violations != b.violations {
                        ok_replay = false;
                        replay_note = "replay is not deterministic".into();
                    } else if a.violations.is_empty() {
                        ok_replay = false;
                        replay_note = "replay does not reproduce the violation".into();
                    }
                }
                (Err(e), _) | (_, Err(e)) => {
                    ok_replay = false;
                    replay_note = format!("replay failed: {}", e);
                }
            }
        }
        let doc = json!({
            "property": run.prop,
            "kind": v.kind,
            "detail": v.detail,
            "weight": v.weight,
            "case": v.case,
        });
        if let Err(e) = std::fs::write(&path, serde_json::to_string_pretty(&doc).unwrap()) {
            eprintln!("MACHINERY: cannot write {}: {}", path, e);
            machinery_fail = true;
        }
        if !ok_replay {
            unreproduced.push(format!("{} ({}: {})", replay_note, v.kind, v.detail));
        } else {
            println!("VIOLATION property={} replay={}", run.prop, path);
            println!("  {}: {}", v.kind, v.detail);
            exit = 1;
        }
        written.push(path);
    }
    // A differing case that replays identically, twice, is a verdict.  Differing cases that do not
    // replay are reported beside it as notes; if *none* replays the run is a machinery failure.
    for u in &unreproduced {
        if exit == 1 {
            println!("  note: a further differing case did not replay identically: {}", u);
        } else {
            eprintln!("MACHINERY: {}", u);
            machinery_fail = true;
        }
    }
    if run.acc.viol_count > 0 && exit == 0 && !machinery_fail {
        exit = 1;
    }
    if run.acc.viol_count > 20 {
        println!("  ... {} violating cases in total, first 20 written", run.acc.viol_count);
    }

    // evidence
    let states = run.acc.states.len() as u64;
    let distinct = run.acc.distinct.len() as u64;
    let mut coverage = Map::new();
    coverage.insert("states".into(), json!(states));
    coverage.insert("transitions".into(), json!(run.acc.trans));
    coverage.insert("traces_validated_against_impl".into(), json!(run.acc.validated));
    coverage.insert("evaluations".into(), json!(run.acc.evals));
    coverage.insert("distinct_nontrivial".into(), json!(distinct));
    coverage.insert("rule".into(), json!(run.rule));
    if run.acc.samples.is_empty() {
        run.acc.samples.push(json!("(no sample recorded)"));
    }
    // VERIF_SEED only rotates which explored cases are printed
    let ns = run.acc.samples.len();
    let rot = (run.seed as usize) % ns;
    let samples: Vec<Value> = (0..ns.min(6)).map(|i| run.acc.samples[(i + rot) % ns].clone()).collect();
    coverage.insert("samples".into(), json!(samples));
    coverage.insert("exhaustive".into(), json!(exhaustive));
    coverage.insert("bounds".into(), Value::Object(run.bounds.clone()));
    coverage.insert(
        "subspaces".into(),
        json!(run
            .subspaces
            .iter()
            .map(|s| json!({"name": s.name, "cardinality": s.cardinality, "visited": s.visited}))
            .collect::<Vec<_>>()),
    );
    coverage.insert("skipped_known".into(), json!(run.acc.skipped_known));
    coverage.insert("known_findings_reproduced".into(), json!(known_lines));
    coverage.insert("outcome_histogram".into(), json!(run.acc.hist));
    coverage.insert(
        "fingerprint_counting".into(),
        json!({
            "rule": "states and distinct_nontrivial count distinct 64-bit fingerprints; a sub-space of at most 131072 cases is counted exactly, a larger one on a deterministic hash sample of one fingerprint in N (N a power of two fixed by the sub-space's cardinality), so both numbers are lower bounds that depend on the space only, not on thread count or timing",
            "sampled_subspaces": run.sampled.iter().map(|(n, k)| json!({"name": n, "one_in": k})).collect::<Vec<_>>(),
            "beyond_safety_cap": {"states": run.acc.states_overflow, "distinct_nontrivial": run.acc.distinct_overflow},
        }),
    );
    coverage.insert("caps_hit".into(), json!(run.caps));
    coverage.insert("violating_cases".into(), json!(run.acc.viol_count));
    coverage.insert("replay_files".into(), json!(written));
    coverage.insert("threads".into(), json!(run.threads));
    for (k, v) in run.extra.iter() {
        coverage.insert(k.clone(), v.clone());
    }
    let wall = run.elapsed();
    let ev = json!({
        "property_id": run.prop,
        "tier": run.tier.name(),
        "seed": run.seed,
        "level": "model_checking",
        "coverage": Value::Object(coverage),
        "assumptions": run.assumptions,
        "wall_s": (wall * 1000.0).round() / 1000.0,
        "violations": run.acc.viol_count,
    });
    let ev_dir = format!("{}/evidence", out_root());
    let _ = std::fs::create_dir_all(&ev_dir);
    let ev_path = format!("{}/{}.json", ev_dir, run.prop);
    if let Err(e) = std::fs::write(&ev_path, serde_json::to_string_pretty(&ev).unwrap() + "\n") {
        eprintln!("MACHINERY: cannot write {}: {}", ev_path, e);
        machinery_fail = true;
    }
    println!(
        "{} {}: evaluations={} transitions={} states={} validated={} distinct_nontrivial={} exhaustive={} violations={} wall={:.1}s",
        run.prop,
        run.tier.name(),
        run.acc.evals,
        run.acc.trans,
        states,
        run.acc.validated,
        distinct,
        exhaustive,
        run.acc.viol_count,
        wall
    );
    if machinery_fail {
        return 2;
    }
    exit
}

/// Mixed-radix index decoder: `Ix::new(i).take(256)` peels digits.
pub struct Ix(pub u64);
impl Ix {
    #[inline]
    pub fn take(&mut self, radix: u64) -> u64 {
        let d = self.0 % radix;
        self.0 /= radix;
        d
    }
}

/// Lane backgrounds: mutually distinct byte patterns.
pub fn background(kind: u64, i: usize) -> u8 {
    match kind {
        0 => 0x00,
        1 => 0xFF,
        2 => (i as u8).wrapping_mul(37).wrapping_add(11),
        _ => (i as u8).wrapping_mul(101).wrapping_add(0x5A),
    }
}

pub fn fp_bytes(tag: u64, b: &[u8]) -> u64 {
    Fnv::default().u64(tag).bytes(b).finish()
}
