//! EXPLORE — explicit-state model checking of the endpoint machine.
//!
//! A state is the event history that reaches it (live contexts are neither
//! Clone nor Hash): every node is rebuilt by replaying its history on a fresh
//! real context, in lock-step with the reference endpoint.  Two modes, both
//! complete within their bound: stateless (every sequence of length <= D) and
//! stateful BFS to fixpoint under an observational canonical key.
use crate::engine::Acc;
use crate::refmodel::*;
use crate::subject::{self, DecOut, Owned, StepObs, StepOut};
use crate::types::*;
use serde_json::{json, Value};
use std::collections::HashMap;

pub const PROBE_SRC: u8 = 0x10;

#[derive(Clone, Copy, Debug, PartialEq, Eq, Hash)]
pub enum Aspect {
    /// result of process/decode (type, payload, error)
    Result,
    /// a response was produced where none is due, or vice versa, or the buffer was touched
    NoResp,
    /// response bytes for command code
    Resp(u8),
    /// EID accessors of both halves
    Eids,
    /// probe answers after the history, per command code
    Probe(u8),
    /// an unexpected panic
    Panic,
}

#[derive(Clone, Debug)]
pub struct Diff {
    pub aspect: Aspect,
    pub text: String,
}

/// The probe battery for a configuration: one request per observable.
pub fn probes(cfg: &Cfg) -> Vec<Vec<u8>> {
    let a = cfg.addr;
    let mut v = vec![
        forge_request(PROBE_SRC, a, 0, false, 0x02, &[]),
        forge_request(PROBE_SRC, a, 0, false, 0x03, &[]),
        forge_request(PROBE_SRC, a, 0, false, 0x04, &[0xFF]),
        forge_request(PROBE_SRC, a, 0, false, 0x05, &[]),
    ];
    for i in 0..cfg.vendors.len() {
        v.push(forge_request(PROBE_SRC, a, 0, false, 0x06, &[i as u8]));
    }
    // Set-Discovered-Flag: must not assign, reports the current EID
    v.push(forge_request(PROBE_SRC, a, 0, false, 0x01, &[3, 0x6B]));
    v
}

/// Compare a produced response with the expectation.  `ignore_iid` masks the
/// instance-id bits (K-C12-IID is C12's business only).
pub fn compare_response(exp: &RespExp, resp_len: Option<usize>, extent: usize, resp: &[u8], ignore_iid: bool) -> Option<String> {
    match exp {
        RespExp::None => {
            if resp_len.is_some() {
                Some(format!("a response of {:?} bytes was reported where none is due", resp_len))
            } else if extent != 0 {
                Some(format!("no response was reported but the response buffer was modified up to offset {}", extent))
            } else {
                None
            }
        }
        RespExp::KnownPanic(_) => None,
        RespExp::Bytes { bytes, body_claimed } => {
            let Some(n) = resp_len else {
                return Some(format!("no response was produced, expected {}", hex(bytes)));
            };
            if n > resp.len() || extent > n {
                return Some(format!("reported response length {} but the buffer was modified up to offset {}", n, extent));
            }
            let got = &resp[..n];
            if *body_claimed {
                if got.len() != bytes.len() {
                    return Some(format!("response is {} ({} bytes), expected {} ({} bytes)", hex(got), n, hex(bytes), bytes.len()));
                }
                for i in 0..n {
                    let mut m = 0xFFu8;
                    if i == 7 {
                        m = 0xF0;
                    }
                    if i == 9 && ignore_iid {
                        m = 0xE0;
                    }
                    if i == n - 1 && ignore_iid {
                        continue; // PEC covers the instance id; checked below
                    }
                    if (got[i] ^ bytes[i]) & m != 0 {
                        return Some(format!("response byte {} is {:#04x}, expected {:#04x} (got {}, expected {})", i, got[i], bytes[i], hex(got), hex(bytes)));
                    }
                }
                if crc8(&got[..n - 1]) != got[n - 1] {
                    return Some(format!("response {} has a wrong PEC", hex(got)));
                }
                None
            } else {
                // only framing, header, command and completion code are specified
                if n < 13 {
                    return Some(format!("response {} is too short to carry a completion code", hex(got)));
                }
                for i in (0..12).filter(|&i| i != 2) {
                    let mut m = 0xFFu8;
                    if i == 7 {
                        m = 0xF0;
                    }
                    if i == 9 && ignore_iid {
                        m = 0xE0;
                    }
                    if (got[i] ^ bytes[i]) & m != 0 {
                        return Some(format!("response byte {} is {:#04x}, expected {:#04x} ({})", i, got[i], bytes[i], hex(got)));
                    }
                }
                if got[2] as usize + 4 != n || crc8(&got[..n - 1]) != got[n - 1] {
                    return Some(format!("response {} has a wrong byte count or PEC", hex(got)));
                }
                None
            }
        }
    }
}

pub fn compare_decode(rd: &RefDec, got: &DecOut) -> Option<String> {
    match (rd.class, got) {
        (_, DecOut::Panic(m)) => Some(format!("panicked: {}", m)),
        (Class::Accept, DecOut::Ok { ty, off, len, .. }) => {
            if *ty == rd.ty && *off == rd.off && off + len == rd.end {
                None
            } else {
                Some(format!("accepted as type {:#04x} payload [{}, {}), expected type {:#04x} payload [{}, {})", ty, off, off + len, rd.ty, rd.off, rd.end))
            }
        }
        (Class::Accept, DecOut::Err { ty, err }) => Some(format!("a well-formed packet was rejected with ({:#04x}, {:?})", ty, err)),
        (Class::Reject, DecOut::Ok { .. }) => Some(format!("a malformed packet was accepted: {:?}", got)),
        (Class::Reject, DecOut::Err { ty, err }) => (!rd.admissible(*ty, *err)).then(|| format!("rejected with ({:#04x}, {:?}), which does not hold of the input", ty, err)),
        (Class::TooShort, DecOut::Ok { .. }) => Some(format!("an input too short for its headers was accepted: {:?}", got)),
        (Class::TooShort, DecOut::Err { .. }) => None,
        (Class::Unclaimed, DecOut::Ok { off, len, .. }) => (!rd.pec_ok || *off != rd.off || off + len != rd.end).then(|| format!("accepted with payload [{}, {}) / pec_ok={}", off, off + len, rd.pec_ok)),
        (Class::Unclaimed, DecOut::Err { ty, err }) => (!rd.admissible(*ty, *err)).then(|| format!("rejected with ({:#04x}, {:?}), which does not hold of the input", ty, err)),
        (Class::KnownPanic(_), _) => None,
    }
}

/// Lock-step comparison of one step.  `r` is the reference endpoint *before*
/// the step and is advanced.
pub fn compare_step(r: &mut RefEndpoint, ev: &Event, obs: &StepObs) -> Vec<Diff> {
    let mut d = vec![];
    match (ev, &obs.out) {
        (Event::Process(p), StepOut::Proc { out, extent, resp }) => {
            let (rd, rexp) = r.process(p);
            if let DecOut::Panic(m) = &out.dec {
                if !matches!(rd.class, Class::KnownPanic(_)) && !matches!(rexp, RespExp::KnownPanic(_)) {
                    d.push(Diff { aspect: Aspect::Panic, text: format!("process_packet panicked: {}", m) });
                }
            } else {
                if let Some(t) = compare_decode(&rd, &out.dec) {
                    d.push(Diff { aspect: Aspect::Result, text: format!("process_packet: {}", t) });
                }
                if let Some(t) = compare_response(&rexp, out.resp_len, *extent, resp, true) {
                    let aspect = match rexp {
                        RespExp::None => Aspect::NoResp,
                        _ => Aspect::Resp(rd.cmd),
                    };
                    d.push(Diff { aspect, text: t });
                }
            }
        }
        (Event::Decode(p), StepOut::Dec(got)) => {
            let rd = ref_decode(p);
            if let Some(t) = compare_decode(&rd, got) {
                let aspect = if got.is_panic() { Aspect::Panic } else { Aspect::Result };
                if !(got.is_panic() && matches!(rd.class, Class::KnownPanic(_))) {
                    d.push(Diff { aspect, text: format!("decode_packet: {}", t) });
                }
            }
        }
        (Event::GetLength(p), StepOut::Len(got)) => {
            let exp = ref_get_length(p);
            let ok = match (exp, got) {
                (Some(n), subject::LenOut::Ok(m)) => n == *m,
                (None, subject::LenOut::Err { ty, .. }) => *ty == T_INVALID,
                _ => false,
            };
            if !ok {
                d.push(Diff { aspect: Aspect::Result, text: format!("get_length = {:?}, expected {:?}", got, exp) });
            }
        }
        (e, StepOut::Unit) => r.apply(e),
        (e, StepOut::Panic(m)) => {
            r.apply(e);
            d.push(Diff { aspect: Aspect::Panic, text: format!("{:?} panicked: {}", e, m) });
        }
        (e, o) => d.push(Diff { aspect: Aspect::Panic, text: format!("harness: event {:?} produced observation {:?}", e, o) }),
    }
    if obs.eid_req != r.eid_req || obs.eid_resp != r.eid_resp {
        d.push(Diff {
            aspect: Aspect::Eids,
            text: format!(
                "EID accessors report request-half {:#04x} / response-half {:#04x}, expected {:#04x} / {:#04x}",
                obs.eid_req, obs.eid_resp, r.eid_req, r.eid_resp
            ),
        });
    }
    d
}

/// Everything observed at a node: the last step, then the probe answers.
pub struct Node {
    pub diffs: Vec<Diff>,
    pub key: u64,
    pub eids: (u8, u8),
    /// concatenated probe answers (for the differential oracle)
    pub probe_answers: Vec<u8>,
    pub last_obs: Option<StepObs>,
    pub calls: u64,
}

#[derive(Clone)]
pub struct Machine {
    pub cfg: Cfg,
    pub init: Vec<Event>,
    pub alphabet: Vec<Event>,
}

impl Machine {
    pub fn history(&self, idx: &[u8]) -> Vec<Event> {
        idx.iter().map(|&i| self.alphabet[i as usize].clone()).collect()
    }

    /// Replay `init` then `idx` on a fresh real context in lock-step with the
    /// reference; check the last step (every prefix is its own node) and the
    /// probe battery.
    pub fn eval(&self, owned: &Owned, probe_pkts: &[Vec<u8>], idx: &[u8]) -> Node {
        let mut ctx = owned.ctx();
        let mut r = RefEndpoint::new(&self.cfg);
        let mut calls = 0u64;
        for ev in &self.init {
            let obs = subject::apply(&mut ctx, ev);
            let _ = compare_step(&mut r, ev, &obs);
            calls += 1;
        }
        subject::fire_other_ctx_hook();
        let mut diffs = vec![];
        let mut last_obs = None;
        for (k, &i) in idx.iter().enumerate() {
            let ev = &self.alphabet[i as usize];
            let obs = subject::apply(&mut ctx, ev);
            calls += 1;
            let d = compare_step(&mut r, ev, &obs);
            if k + 1 == idx.len() {
                diffs = d;
                last_obs = Some(obs);
            }
        }
        // probe battery on this (disposable) context
        let mut h = Fnv::default().u64(fp(&self.cfg));
        let mut answers = vec![];
        for p in probe_pkts {
            let ev = Event::Process(p.clone());
            let obs = subject::apply(&mut ctx, &ev);
            calls += 1;
            let cmd = p[10];
            for df in compare_step(&mut r, &ev, &obs) {
                let aspect = match df.aspect {
                    Aspect::Resp(_) | Aspect::NoResp | Aspect::Result | Aspect::Eids => Aspect::Probe(cmd),
                    a => a,
                };
                diffs.push(Diff { aspect, text: format!("probe {:#04x} after the history: {}", cmd, df.text) });
            }
            if let StepOut::Proc { out, resp, .. } = &obs.out {
                answers.extend_from_slice(&(out.resp_len.unwrap_or(0xFFFF) as u16).to_le_bytes());
                answers.extend_from_slice(resp);
                answers.push(obs.eid_req);
                answers.push(obs.eid_resp);
            }
        }
        let eids = (ctx.get_request_eid(), ctx.get_response_eid());
        h = h.bytes(&answers);
        Node { diffs, key: h.finish(), eids, probe_answers: answers, last_obs, calls }
    }
}

trait EidAccess {
    fn get_request_eid(&self) -> u8;
    fn get_response_eid(&self) -> u8;
}
impl EidAccess for libmctp::smbus::MCTPSMBusContext<'_> {
    fn get_request_eid(&self) -> u8 {
        use libmctp::mctp_traits::SMBusMCTPRequestResponse;
        self.get_request().get_eid()
    }
    fn get_response_eid(&self) -> u8 {
        use libmctp::mctp_traits::SMBusMCTPRequestResponse;
        self.get_response().get_eid()
    }
}

pub struct ExploreStats {
    pub sequences: u64,
    pub bfs_states: u64,
    pub bfs_transitions: u64,
    pub bfs_max_depth: u64,
    pub merged_paths_checked: u64,
    /// one representative history per reachable state (init events included)
    pub reps: Vec<Vec<Event>>,
}

/// Which diffs a property claims: (diff, full history, index of the step the diff belongs to = last).
pub type Filter = dyn Fn(&Diff, &[Event]) -> bool + Sync;

fn case_json(prop: &str, m: &Machine, idx: &[u8]) -> Value {
    json!({"prop": prop, "check": "history", "cfg": m.cfg, "init": m.init, "history": m.history(idx)})
}

/// Stateless mode: every event sequence of length 1..=depth (no merging).
pub fn stateless(run: &mut crate::engine::Run, prop: &'static str, name: &str, m: &Machine, depth: usize, filter: &Filter) -> u64 {
    // environment choice "one shared receive buffer" (default) at full depth, and
    // "every packet in its own allocation" one level shallower
    let n = stateless_mode(run, prop, name, m, depth, filter, true);
    if depth >= 2 {
        stateless_mode(run, prop, &format!("{} [distinct receive buffers]", name), m, depth - 1, filter, false);
    }
    n
}

fn stateless_mode(run: &mut crate::engine::Run, prop: &'static str, name: &str, m: &Machine, depth: usize, filter: &Filter, shared_rx: bool) -> u64 {
    let a = m.alphabet.len() as u64;
    let mut total = 0u64;
    for d in 1..=depth {
        total += a.pow(d as u32);
    }
    let probe_pkts = probes(&m.cfg);
    run.sweep_chunked(&format!("{}: all sequences of length 1..={} over {} events", name, depth, a), total, |acc, lo, hi| {
        let owned = Owned::new(&m.cfg);
        let mut idx: Vec<u8> = Vec::with_capacity(depth);
        subject::set_rx_shared(shared_rx);
        for i in lo..hi {
            // index -> (length, digits)
            let mut r = i;
            let mut len = 1usize;
            loop {
                let c = a.pow(len as u32);
                if r < c {
                    break;
                }
                r -= c;
                len += 1;
            }
            idx.clear();
            for _ in 0..len {
                idx.push((r % a) as u8);
                r /= a;
            }
            let node = m.eval(&owned, &probe_pkts, &idx);
            acc.evals += 1;
            acc.trans += node.calls;
            acc.validated += 1;
            acc.state(node.key);
            let last = &m.alphabet[*idx.last().unwrap() as usize];
            if len >= 2 && idx.iter().any(|&e| changes_state(&m.alphabet[e as usize])) {
                acc.nontrivial(Fnv::default().bytes(&idx).u64(len as u64).finish());
            }
            acc.outcome2(event_kind(last), if node.diffs.is_empty() { "agrees" } else { "differs" });
            if i % 400_009 == 3 {
                acc.sample(|| json!({"history": m.history(&idx), "eids_after": [node.eids.0, node.eids.1]}));
            }
            let hist_ev = m.history(&idx);
            for df in node.diffs.iter().filter(|df| filter(df, &hist_ev)) {
                acc.violation(len as u64, "history", format!("after {} event(s): {}", len, df.text), || {
                    let mut c = case_json(prop, m, &idx);
                    c["shared_rx"] = json!(shared_rx);
                    c
                });
            }
        }
        subject::set_rx_shared(true);
    });
    total
}

pub fn changes_state(ev: &Event) -> bool {
    match ev {
        Event::SetUuid(_) | Event::SetEidReq(_) | Event::SetEidResp(_) => true,
        Event::Process(p) => {
            let rd = ref_decode(p);
            rd.class == Class::Accept && rd.is_request && rd.cmd == 0x01 && p[11] < 2
        }
        _ => false,
    }
}

pub fn event_kind(ev: &Event) -> &'static str {
    match ev {
        Event::Process(p) => {
            let rd = ref_decode(p);
            match rd.class {
                Class::Accept if rd.is_control && rd.is_request => match rd.cmd {
                    0x01 => "process.set_eid",
                    0x02 => "process.get_eid",
                    0x03 => "process.get_uuid",
                    0x04 => "process.get_version",
                    0x05 => "process.get_msg_types",
                    0x06 => "process.get_vendor",
                    _ => "process.other_request",
                },
                Class::Accept if rd.is_control => "process.response",
                Class::Accept => "process.vendor_or_spdm",
                Class::Unclaimed => "process.response",
                _ => "process.rejected",
            }
        }
        Event::Decode(_) => "decode",
        Event::SetUuid(_) => "set_uuid",
        Event::SetEidReq(_) => "set_eid(request half)",
        Event::SetEidResp(_) => "set_eid(response half)",
        Event::GetLength(_) => "get_length",
        Event::Encode { .. } => "encode",
    }
}

/// Stateful BFS to fixpoint under the observational key, from the machine's
/// initial state.  Every (state, event) pair is executed; on every re-arrival
/// at a known key the two concrete contexts are compared (probe answers byte
/// for byte, and one further step under every event).
pub fn bfs(run: &mut crate::engine::Run, prop: &'static str, name: &str, m: &Machine, filter: &Filter, max_states: usize) -> ExploreStats {
    let owned = Owned::new(&m.cfg);
    let probe_pkts = probes(&m.cfg);
    let a = m.alphabet.len();
    let mut acc = Acc::default();
    let root = m.eval(&owned, &probe_pkts, &[]);
    let mut seen: HashMap<u64, (Vec<u8>, Vec<u8>)> = HashMap::new(); // key -> (representative history, probe answers)
    seen.insert(root.key, (vec![], root.probe_answers.clone()));
    acc.state(root.key);
    let mut frontier: Vec<Vec<u8>> = vec![vec![]];
    let mut depth = 0u64;
    let mut transitions = 0u64;
    let mut merged = 0u64;
    let mut capped = false;
    while !frontier.is_empty() {
        let mut next = vec![];
        for hist in &frontier {
            for e in 0..a {
                let mut idx = hist.clone();
                idx.push(e as u8);
                let node = m.eval(&owned, &probe_pkts, &idx);
                transitions += 1;
                acc.evals += 1;
                acc.trans += node.calls;
                acc.validated += 1;
                let last = &m.alphabet[e];
                acc.outcome2(event_kind(last), if node.diffs.is_empty() { "bfs.agrees" } else { "bfs.differs" });
                let hist_ev = m.history(&idx);
                for df in node.diffs.iter().filter(|df| filter(df, &hist_ev)) {
                    acc.violation(idx.len() as u64, "reachable-state", format!("in a state reached by {} event(s): {}", idx.len(), df.text), || case_json(prop, m, &idx));
                }
                match seen.get(&node.key) {
                    None => {
                        if seen.len() >= max_states {
                            capped = true;
                            continue;
                        }
                        seen.insert(node.key, (idx.clone(), node.probe_answers.clone()));
                        acc.state(node.key);
                        acc.nontrivial(node.key);
                        next.push(idx);
                    }
                    Some((rep, answers)) => {
                        // differential oracle: same key reached by a different path
                        if *answers != node.probe_answers {
                            acc.violation(idx.len() as u64, "merge-differs", "two histories with the same canonical key answer the probe battery differently".to_string(), || case_json(prop, m, &idx));
                        }
                        if rep != &idx {
                            merged += 1;
                            // one further step under every event must be observed identically
                            for e2 in 0..a {
                                let mut p1 = rep.clone();
                                p1.push(e2 as u8);
                                let mut p2 = idx.clone();
                                p2.push(e2 as u8);
                                let n1 = m.eval(&owned, &probe_pkts, &p1);
                                let n2 = m.eval(&owned, &probe_pkts, &p2);
                                acc.trans += n1.calls + n2.calls;
                                if n1.key != n2.key || n1.last_obs != n2.last_obs || n1.probe_answers != n2.probe_answers {
                                    acc.violation(
                                        p2.len() as u64,
                                        "hidden-state",
                                        format!("two histories that agree on every probe diverge after one more event ({}): hidden state", event_kind(&m.alphabet[e2])),
                                        || json!({"prop": prop, "check": "history-pair", "cfg": m.cfg, "init": m.init, "history": m.history(&p2), "other": m.history(&p1)}),
                                    );
                                }
                            }
                        }
                    }
                }
            }
        }
        if !next.is_empty() {
            depth += 1;
        }
        frontier = next;
    }
    if capped {
        run.caps.push(format!("{}: BFS stopped adding states at {} (cap)", name, max_states));
    }
    acc.sample(|| json!({"bfs": name, "states": seen.len(), "max_depth": depth, "deepest_history": seen.values().map(|v| v.0.len()).max()}));
    let mut reps: Vec<Vec<Event>> = seen
        .values()
        .map(|v| {
            let mut h = m.init.clone();
            h.extend(m.history(&v.0));
            h
        })
        .collect();
    reps.sort_by(|a, b| (a.len(), fp(a)).cmp(&(b.len(), fp(b))));
    let stats = ExploreStats { sequences: 0, bfs_states: seen.len() as u64, bfs_transitions: transitions, bfs_max_depth: depth, merged_paths_checked: merged, reps };
    let card = transitions;
    run.merge_acc(acc);
    run.subspaces.push(crate::engine::SubSpace { name: format!("{}: BFS to fixpoint, all reachable states x {} events", name, a), cardinality: card, visited: transitions });
    stats
}

/// RUNSEQ: run-length sequences.  A symbol is (event, repeat count); every
/// sequence of `depth` symbols is expanded into a history of up to
/// depth x max-repeat calls, whose last call and the probe battery are judged.
/// Counters that saturate, budgets that run out and tables that fill up need
/// many repetitions of few distinct events, which plain depth cannot reach.
pub fn runseq(run: &mut crate::engine::Run, prop: &'static str, name: &str, cfg: &Cfg, events: &[Event], repeats: &[usize], depth: u32, filter: &Filter) {
    let ns = (events.len() * repeats.len()) as u64;
    let total: u64 = (1..=depth).map(|d| ns.pow(d)).sum();
    let probe_pkts = probes(cfg);
    let nr = repeats.len() as u64;
    run.sweep_chunked(
        &format!("RUNSEQ {}: every sequence of length <= {} over {} events x repeat counts {:?}", name, depth, events.len(), repeats),
        total,
        |acc, lo, hi| {
            let owned = Owned::new(cfg);
            for i in lo..hi {
                let mut r = i;
                let mut len = 1u32;
                while r >= ns.pow(len) {
                    r -= ns.pow(len);
                    len += 1;
                }
                let mut history: Vec<Event> = vec![];
                for _ in 0..len {
                    let sym = r % ns;
                    r /= ns;
                    let ev = &events[(sym / nr) as usize];
                    for _ in 0..repeats[(sym % nr) as usize] {
                        history.push(ev.clone());
                    }
                }
                let last = history.pop().unwrap();
                let m = Machine { cfg: cfg.clone(), init: history, alphabet: vec![last] };
                let node = m.eval(&owned, &probe_pkts, &[0]);
                acc.evals += 1;
                acc.trans += node.calls;
                acc.validated += 1;
                if i % 101 == 0 {
                    acc.state(node.key);
                }
                if len >= 2 {
                    acc.nontrivial(Fnv::default().u64(0x5E9).u64(i).finish());
                }
                // the filter sees the whole expanded history
                let mut h = m.init.clone();
                h.push(m.alphabet[0].clone());
                for df in node.diffs.iter().filter(|df| filter(df, &h)) {
                    acc.violation(h.len() as u64, "run-length-history", format!("after {} call(s): {}", h.len(), df.text), || json!({"prop": prop, "check": "history", "cfg": m.cfg, "init": m.init, "history": [m.alphabet[0].clone()]}));
                }
            }
        },
    );
}

/// PAIRSEQ: every ordered pair (first, second) over two event lists, on a fresh
/// context each; the second step and the probe battery are judged.
pub fn pairseq(run: &mut crate::engine::Run, prop: &'static str, name: &str, cfg: &Cfg, first: &[Event], second: &[Event], filter: &Filter) {
    let n1 = first.len() as u64;
    let n2 = second.len() as u64;
    let probe_pkts = probes(cfg);
    run.sweep_chunked(&format!("PAIRSEQ {}: every ordered pair over {} x {} events", name, n1, n2), n1 * n2, |acc, lo, hi| {
        let owned = Owned::new(cfg);
        for i in lo..hi {
            let e1 = &first[(i / n2) as usize];
            let e2 = &second[(i % n2) as usize];
            let m = Machine { cfg: cfg.clone(), init: vec![], alphabet: vec![e1.clone(), e2.clone()] };
            let node = m.eval(&owned, &probe_pkts, &[0, 1]);
            acc.evals += 1;
            acc.trans += node.calls;
            acc.validated += 1;
            if i % 7 == 0 {
                acc.state(node.key);
            }
            acc.nontrivial(Fnv::default().u64(0x9A1).u64(fp(e1)).u64(fp(e2)).finish());
            acc.outcome2(event_kind(e2), if node.diffs.is_empty() { "pair.agrees" } else { "pair.differs" });
            let h = [e1.clone(), e2.clone()];
            for df in node.diffs.iter().filter(|df| filter(df, &h)) {
                acc.violation(2, "pair", df.text.clone(), || json!({"prop": prop, "check": "history", "cfg": m.cfg, "init": m.init, "history": h}));
            }
        }
    });
}

/// Replay of a history case: returns all diffs (unfiltered text) of the last
/// step and the probes.
pub fn replay_history(case: &Value) -> Result<(Vec<Diff>, Event, String), String> {
    let cfg: Cfg = serde_json::from_value(case["cfg"].clone()).map_err(|e| e.to_string())?;
    let init: Vec<Event> = serde_json::from_value(case["init"].clone()).map_err(|e| e.to_string())?;
    let history: Vec<Event> = serde_json::from_value(case["history"].clone()).map_err(|e| e.to_string())?;
    if history.is_empty() {
        return Err("empty history".into());
    }
    let m = Machine { cfg, init, alphabet: history.clone() };
    let idx: Vec<u8> = (0..history.len() as u8).collect();
    let owned = Owned::new(&m.cfg);
    subject::set_rx_shared(case["shared_rx"].as_bool().unwrap_or(true));
    let node = m.eval(&owned, &probes(&m.cfg), &idx);
    subject::set_rx_shared(true);
    let observed = format!("last step {:?}; eids {:?}; probes {}", node.last_obs, node.eids, hex(&node.probe_answers));
    Ok((node.diffs, history.last().unwrap().clone(), observed))
}

/// Replay of a history-pair case (hidden-state differential).
pub fn replay_pair(case: &Value) -> Result<(bool, String), String> {
    let cfg: Cfg = serde_json::from_value(case["cfg"].clone()).map_err(|e| e.to_string())?;
    let init: Vec<Event> = serde_json::from_value(case["init"].clone()).map_err(|e| e.to_string())?;
    let h1: Vec<Event> = serde_json::from_value(case["history"].clone()).map_err(|e| e.to_string())?;
    let h2: Vec<Event> = serde_json::from_value(case["other"].clone()).map_err(|e| e.to_string())?;
    let owned = Owned::new(&cfg);
    let pk = probes(&cfg);
    let m1 = Machine { cfg: cfg.clone(), init: init.clone(), alphabet: h1.clone() };
    let m2 = Machine { cfg, init, alphabet: h2.clone() };
    let n1 = m1.eval(&owned, &pk, &(0..h1.len() as u8).collect::<Vec<_>>());
    let n2 = m2.eval(&owned, &pk, &(0..h2.len() as u8).collect::<Vec<_>>());
    let same = n1.last_obs == n2.last_obs && n1.probe_answers == n2.probe_answers;
    Ok((same, format!("{:?} / {:?} ; probes {} / {}", n1.last_obs, n2.last_obs, hex(&n1.probe_answers), hex(&n2.probe_answers))))
}

// ---------------------------------------------------------------------------
// Cross-check engine: the same machine as a stateright::Model
// ---------------------------------------------------------------------------

#[derive(Clone, Debug)]
pub struct SrState {
    hist: Vec<u8>,
    key: u64,
    agrees: bool,
}
impl PartialEq for SrState {
    fn eq(&self, o: &Self) -> bool {
        self.key == o.key
    }
}
impl Eq for SrState {}
impl std::hash::Hash for SrState {
    fn hash<H: std::hash::Hasher>(&self, h: &mut H) {
        self.key.hash(h)
    }
}

struct SrModel {
    m: Machine,
    probe_pkts: Vec<Vec<u8>>,
}

impl stateright::Model for SrModel {
    type State = SrState;
    type Action = u8;
    fn init_states(&self) -> Vec<SrState> {
        crate::trap::install();
        let owned = Owned::new(&self.m.cfg);
        let n = self.m.eval(&owned, &self.probe_pkts, &[]);
        vec![SrState { hist: vec![], key: n.key, agrees: true }]
    }
    fn actions(&self, _s: &SrState, actions: &mut Vec<u8>) {
        actions.extend(0..self.m.alphabet.len() as u8);
    }
    fn next_state(&self, last: &SrState, a: u8) -> Option<SrState> {
        crate::trap::install();
        let owned = Owned::new(&self.m.cfg);
        let mut hist = last.hist.clone();
        hist.push(a);
        let n = self.m.eval(&owned, &self.probe_pkts, &hist);
        Some(SrState { hist, key: n.key, agrees: true })
    }
    fn properties(&self) -> Vec<stateright::Property<Self>> {
        vec![stateright::Property::<Self>::always("reached", |_, s| s.agrees)]
    }
}

/// Run the machine under stateright's BFS and compare the number of unique
/// states with the hand-rolled engine's.  A disagreement is a machinery
/// failure (exit 2), never a verdict.
pub fn crosscheck_stateright(run: &mut crate::engine::Run, name: &str, m: &Machine, st: &ExploreStats) {
    use stateright::{Checker, Model};
    let model = SrModel { m: m.clone(), probe_pkts: probes(&m.cfg) };
    let checker = model.checker().threads(run.threads.min(8)).spawn_bfs().join();
    let uniq = checker.unique_state_count() as u64;
    let gen = checker.state_count() as u64;
    let depth = checker.max_depth() as u64;
    let mut cur = run.extra.get("stateright_crosscheck").cloned().unwrap_or_else(|| json!([]));
    cur.as_array_mut().unwrap().push(json!({
        "machine": name, "stateright_unique_states": uniq, "stateright_states_generated": gen, "stateright_max_depth": depth,
        "engine_states": st.bfs_states, "engine_max_depth": st.bfs_max_depth, "agree": uniq == st.bfs_states,
    }));
    run.extra.insert("stateright_crosscheck".into(), cur);
    if uniq != st.bfs_states {
        run.machinery_errors.push(format!("{}: stateright found {} unique states, the BFS engine {}", name, uniq, st.bfs_states));
    }
}
