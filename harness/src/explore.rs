//! EXPLORE engine (explicit-state search over the endpoint machine).
