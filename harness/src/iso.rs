//! ISOLATION: state must live in the context, not in the process.
//!
//! Every property quantifies over the history *of one context*.  A change that
//! hoists a scratch cell, a memo or a learned mode into a `static` makes the
//! outcome on context B depend on what context A did before -- and, because
//! the other engines run their cases on 16 threads, would make their verdicts
//! depend on thread timing.  This phase therefore runs first, in fresh
//! single-threaded child processes (`mcx iso ...`), so that the process-wide
//! state is exactly what the enumerated A-events made it:
//!
//!   baseline: judge every B-case on fresh contexts before anything else ran;
//!   for every A-event i of a contiguous segment: apply it to the long-lived
//!   context A, then judge the *small* B set on fresh contexts (after every
//!   256th event and at the end of the segment: the *full* B set); a B-case
//!   whose judgement differs from the baseline is a violation of the property
//!   the B-case belongs to.
//!
//! The parent splits the A-list into contiguous segments (one child each),
//! minimises a reported difference to a single A-event where that reproduces
//! in a fresh process, confirms it twice, and then does not run the
//! multi-threaded sub-spaces at all (their outcome would not be a function of
//! the case).
use crate::engine::{ReplayOut, Run};
use crate::explore::{probes, Diff, Filter};
use crate::props::common::{set_eid_req, U1};
use crate::props::enc::basic_calls;
use crate::props::{decprops, encprops, stateprops};
use crate::subject::{self, Owned};
use crate::types::*;
use serde_json::{json, Value};
use std::process::Command;

const ENC_PROPS: [&str; 8] = ["C01", "C03", "C04", "C05", "C06", "C07", "C08", "C16"];
const STATE_PROPS: [&str; 9] = ["C02", "C09", "C10", "C11", "C12", "C13", "C14", "C15", "C17"];

pub fn applies(prop: &str) -> bool {
    ENC_PROPS.contains(&prop) || STATE_PROPS.contains(&prop) || prop == "C19" || prop == "C18"
}

/// The A-events: everything the other engines' alphabets contain, every basic
/// encoder call, and the complete t = 1 deviation space of the core shapes
/// (every byte of every core packet x 256 values, PEC stale and re-computed)
/// as processed packets.  Indexable, so that nothing large is materialised.
pub struct AList {
    fixed: Vec<Event>,
    sp: crate::props::dec::DevSpace,
}

impl AList {
    pub fn new() -> AList {
        let mut v = stateprops::mixed_machine().alphabet;
        v.extend(encprops::encseq_alphabet());
        for c in basic_calls() {
            v.push(Event::Encode { call: c, dst: 0x34 });
        }
        AList { fixed: v, sp: crate::props::dec::space_t1_core() }
    }
    pub fn len(&self) -> usize {
        self.fixed.len() + self.sp.n() as usize
    }
    /// Indices beyond `len()` denote ordered pairs of alphabet events (the first
    /// is applied to A unjudged, the second is the judged A-event).
    pub fn total(&self) -> usize {
        self.len() + self.fixed.len() * self.fixed.len()
    }
    pub fn pair(&self, i: usize) -> Option<(usize, usize)> {
        let nf = self.fixed.len();
        (i >= self.len() && i < self.total()).then(|| ((i - self.len()) / nf, (i - self.len()) % nf))
    }
    pub fn get(&self, i: usize) -> Event {
        if let Some((_, y)) = self.pair(i) {
            return self.fixed[y].clone();
        }
        if i < self.fixed.len() {
            self.fixed[i].clone()
        } else {
            let mut buf = vec![];
            self.sp.get((i - self.fixed.len()) as u64, &mut buf);
            Event::Process(buf)
        }
    }
}

fn state_filter(prop: &str) -> Box<Filter> {
    use crate::explore::Aspect;
    match prop {
        "C02" => Box::new(decprops::c02_filter),
        "C09" => Box::new(|d: &Diff, h: &[Event]| d.aspect == Aspect::Result && matches!(h.last(), Some(Event::Process(_)) | Some(Event::Decode(_)))),
        "C10" => Box::new(|d: &Diff, _h: &[Event]| d.aspect == Aspect::Panic),
        "C11" => Box::new(|d: &Diff, h: &[Event]| matches!(d.aspect, Aspect::Result | Aspect::NoResp) && matches!(h.last(), Some(Event::Process(_)))),
        "C12" => Box::new(|d: &Diff, _h: &[Event]| matches!(d.aspect, Aspect::Resp(_))),
        "C13" => Box::new(stateprops::c13_filter),
        "C14" => Box::new(stateprops::c14_filter),
        "C15" => Box::new(stateprops::c15_filter),
        _ => Box::new(|d: &Diff, h: &[Event]| d.aspect == Aspect::Result && matches!(h.last(), Some(Event::GetLength(_)))),
    }
}

/// The B-cases of a property.  A B-case is (set-up history on a fresh context
/// B, the judged call on B); the A-event under examination is applied to the
/// long-lived context A *between* the two (`subject::fire_other_ctx_hook`), so
/// that "B stores something, A does something, B is asked" is covered as well as
/// "A does something, a fresh B is asked".
#[derive(Clone, Copy, PartialEq)]
enum Level {
    /// fresh B x one event/call per kind; B with each set-up history x the probe battery
    Small,
    /// every set-up history x every event / every basic encoder call
    Full,
}

struct BJudge {
    prop: String,
    m: crate::explore::Machine,
    probe_pkts: Vec<Vec<u8>>,
    small_events: Vec<u8>,
    calls: Vec<EncCall>,
    small_calls: Vec<usize>,
    state_prefixes: Vec<Vec<Event>>,
    enc_prefixes: Vec<Vec<Event>>,
    filter: Box<Filter>,
    pub n_judged: u64,
    pub n_calls: u64,
}

impl BJudge {
    fn new(prop: &str) -> BJudge {
        use crate::refmodel::forge_request;
        let m = stateprops::mixed_machine();
        let probe_pkts = probes(&m.cfg);
        let mut seen = vec![];
        let mut small_events = vec![];
        for (i, e) in m.alphabet.iter().enumerate() {
            let k = crate::explore::event_kind(e);
            if !seen.contains(&k) {
                seen.push(k);
                small_events.push(i as u8);
            }
        }
        let calls = basic_calls();
        let keep = ["req.get_endpoint_id", "req.set_endpoint_id", "resp.get_endpoint_id", "resp.set_endpoint_id", "resp.get_mctp_version_support", "req.vendor_defined(pci)", "req.vendor_defined(iana)", "raw.spdm"];
        let mut seen = vec![];
        let mut small_calls = vec![];
        for (i, c) in calls.iter().enumerate() {
            if keep.contains(&c.name()) && !seen.contains(&c.name()) {
                seen.push(c.name());
                small_calls.push(i);
            }
        }
        let a = m.cfg.addr;
        let src = crate::props::dec::SRC;
        let geid = forge_request(src, a, 0, false, 0x02, &[]);
        let state_prefixes = vec![
            vec![],
            vec![Event::Process(set_eid_req(src, a, 0, 0x10))],
            vec![Event::SetEidResp(0x3C), Event::SetEidReq(0x3D)],
            vec![Event::SetUuid(U1)],
            vec![Event::Process(forge_request(src, a, 0, false, 0x06, &[0]))],
            vec![Event::Process(geid.clone())],
            vec![Event::GetLength(geid[..3].to_vec()), Event::Decode(crate::props::dec::raw_frame(src, a, crate::refmodel::T_PCI, &[0x14, 0x14, 1, 2, 3]))],
        ];
        let own = encprops::SEQ_OWN;
        let enc_prefixes = vec![
            vec![],
            vec![Event::SetEidReq(0x42), Event::SetEidResp(0x42)],
            vec![Event::Process(set_eid_req(0x10, own, 0, 0x99))],
            vec![
                Event::Encode { call: EncCall::Vendor { fmt: 0, data: 0x1AF4, num: 1, msg: vec![0x51; 4] }, dst: 0x34 },
                Event::Encode { call: EncCall::RespMsgTypes { cc: 0, types: vec![0xBB; 30] }, dst: 0x34 },
            ],
            vec![Event::Encode { call: EncCall::Vendor { fmt: 1, data: 0x0000_1AF4, num: 1, msg: vec![0x56; 4] }, dst: 0x34 }, Event::Encode { call: EncCall::ReqGetEid, dst: 0x34 }],
        ];
        BJudge { prop: prop.to_string(), m, probe_pkts, small_events, calls, small_calls, state_prefixes, enc_prefixes, filter: state_filter(prop), n_judged: 0, n_calls: 0 }
    }

    fn eval_state(&mut self, prefix: &[Event], alphabet: &[Event], idx: &[u8], out: &mut Vec<String>) {
        let m = crate::explore::Machine { cfg: self.m.cfg.clone(), init: prefix.to_vec(), alphabet: alphabet.to_vec() };
        let owned = Owned::new(&m.cfg);
        let node = m.eval(&owned, &self.probe_pkts, idx);
        self.n_judged += 1;
        self.n_calls += node.calls;
        let mut hist = prefix.to_vec();
        hist.extend(m.history(idx));
        for df in node.diffs.iter().filter(|df| (self.filter)(df, &hist)) {
            let what = match idx.first() {
                Some(&i) => crate::explore::event_kind(&alphabet[i as usize]),
                None => "probe battery",
            };
            out.push(format!("context B ({} set-up call(s)), {}: {}", prefix.len(), what, df.text));
        }
    }

    /// One context B: set-up history, the other context acts, then the events one
    /// after the other in lock-step with the reference (every step compared),
    /// then the probe battery.
    fn eval_seq(&mut self, prefix: &[Event], events: &[Event], with_probes: bool, out: &mut Vec<String>) {
        use crate::explore::compare_step;
        let owned = Owned::new(&self.m.cfg);
        let mut ctx = owned.ctx();
        let mut r = crate::refmodel::RefEndpoint::new(&self.m.cfg);
        let mut hist: Vec<Event> = vec![];
        for ev in prefix {
            let obs = subject::apply(&mut ctx, ev);
            let _ = compare_step(&mut r, ev, &obs);
            hist.push(ev.clone());
        }
        subject::fire_other_ctx_hook();
        let probes: Vec<Event> = if with_probes { self.probe_pkts.iter().map(|p| Event::Process(p.clone())).collect() } else { vec![] };
        for ev in events.iter().chain(probes.iter()) {
            let obs = subject::apply(&mut ctx, ev);
            hist.push(ev.clone());
            self.n_calls += 1;
            for df in compare_step(&mut r, ev, &obs) {
                if (self.filter)(&df, &hist) {
                    out.push(format!("context B after {} call(s), {}: {}", hist.len() - 1, crate::explore::event_kind(ev), df.text));
                }
            }
        }
        self.n_judged += 1;
    }

    /// `echo`: a packet context A has just handled (if it carried a right PEC):
    /// B is handed the same packet with one byte damaged and the old PEC.
    fn judge(&mut self, level: Level, echo: Option<&[u8]>) -> Vec<String> {
        use crate::refmodel::forge_request;
        let mut out = vec![];
        let prop = self.prop.clone();
        if prop == "C19" {
            for (which, n) in [("command_code", 256u64), ("message_type", 256), ("completion_code", 6), ("discriminants", 1)] {
                for b in 0..n {
                    self.n_judged += 1;
                    self.n_calls += 1;
                    if let (_, Some(d)) = crate::props::c19::judge(which, b as u8) {
                        out.push(d);
                    }
                }
            }
        } else if prop == "C18" {
            // the two validators (the only header-view entry points the receive path itself calls)
            for version in [0u8, 1, 2, 0x0F, 0x11, 0xFF] {
                for b0 in 0..=255u8 {
                    self.n_judged += 1;
                    self.n_calls += 1;
                    if let (_, Some(d)) = crate::props::c18::judge_transport_validator(&[b0, 0x22, 0x33, 0xC8], version) {
                        out.push(d);
                    }
                }
            }
            for b in 0..=255u8 {
                self.n_judged += 1;
                self.n_calls += 1;
                if let (_, Some(d)) = crate::props::c18::judge_body_validator(b) {
                    out.push(d);
                }
            }
        } else if ENC_PROPS.contains(&prop.as_str()) {
            let cfg = encprops::encseq_cfg();
            let ixs: Vec<usize> = if level == Level::Full { (0..self.calls.len()).collect() } else { self.small_calls.clone() };
            let np = if level == Level::Full { self.enc_prefixes.len() } else { 2 };
            for (pi, p) in self.enc_prefixes.iter().enumerate().take(np) {
                for &i in &ixs {
                    let call = &self.calls[i];
                    let j = encprops::judge_encseq(&prop, &cfg, p, call, 0x34, false, false);
                    self.n_judged += 1;
                    self.n_calls += 2 + p.len() as u64;
                    for (kind, d) in j.viols {
                        out.push(format!("context B (set-up #{}), {}: {}", pi, kind, d));
                    }
                }
                // ... and B repeats what it encoded itself before the other context acted
                for ev in p.iter() {
                    if let Event::Encode { call, dst } = ev {
                        let j = encprops::judge_encseq(&prop, &cfg, p, call, *dst, false, false);
                        self.n_judged += 1;
                        self.n_calls += 2 + p.len() as u64;
                        for (kind, d) in j.viols {
                            out.push(format!("context B (set-up #{}) repeating its own {}: {}: {}", pi, call.name(), kind, d));
                        }
                    }
                }
            }
        } else {
            let alphabet = self.m.alphabet.clone();
            let prefixes = self.state_prefixes.clone();
            if level == Level::Full {
                // minimal-length control messages of every kind from the peers the encoders talk to
                // (a judgement that reads a body byte because of something *another* context did)
                let mut short = vec![];
                for from in [crate::props::dec::SRC, 0x34u8] {
                    for cmd in 0..=0x15u8 {
                        for dl in 0..=2usize {
                            short.push(Event::Process(crate::refmodel::forge_response(from, self.m.cfg.addr, 0, cmd, 0, &vec![0u8; dl])));
                            short.push(Event::Decode(crate::refmodel::forge_request(from, self.m.cfg.addr, 0, false, cmd, &vec![0u8; dl])));
                        }
                    }
                }
                self.eval_seq(&[], &short, false, &mut out);
                // every selector right after the other context acted, from every set-up (a requester
                // following the selector this context handed out before)
                let nsets = self.m.cfg.vendors.len() as u8;
                for p in &prefixes {
                    for sel in 0..nsets {
                        let ev = Event::Process(forge_request(crate::props::dec::SRC, self.m.cfg.addr, 0, false, 0x06, &[sel]));
                        self.eval_state(p, std::slice::from_ref(&ev), &[0], &mut out);
                    }
                }
                for p in &prefixes {
                    for i in 0..alphabet.len() as u8 {
                        self.eval_state(p, &alphabet, &[i], &mut out);
                    }
                }
            } else {
                // one fresh B handling one event of every kind in a row, and one B that has stored
                // an EID, a UUID, answered a vendor query and a Get Endpoint ID before A acts
                let small: Vec<Event> = self.small_events.iter().map(|&i| alphabet[i as usize].clone()).collect();
                self.eval_seq(&[], &small, true, &mut out);
                let setup: Vec<Event> = prefixes[1..6].iter().flatten().cloned().collect();
                self.eval_seq(&setup, &[], true, &mut out);
            }
            if let Some(pkt) = echo {
                let n = pkt.len();
                if n >= 4 && crate::refmodel::crc8(&pkt[..n - 1]) == pkt[n - 1] {
                    let mut evs = vec![];
                    for pos in [5usize, 9, 11, n - 2] {
                        if pos + 1 < n {
                            let mut bad = pkt.to_vec();
                            bad[pos] ^= 0x5A;
                            evs.push(Event::Decode(bad.clone()));
                            evs.push(Event::Process(bad));
                        }
                    }
                    // the hook must not fire again here: A has acted already
                    subject::suspend_other_ctx_hook(true);
                    self.eval_seq(&[], &evs, false, &mut out);
                    if prop == "C11" {
                        // C11 is about agreement: the same bytes decoded on one fresh context and
                        // processed on another
                        for ev in evs.iter().step_by(2).chain(std::iter::once(&Event::Decode(pkt.to_vec()))) {
                            let Event::Decode(b) = ev else { continue };
                            let (o1, o2) = (Owned::new(&self.m.cfg), Owned::new(&self.m.cfg));
                            let d = subject::decode(&o1.ctx(), b);
                            let mut resp = [0u8; 128];
                            let pr = subject::process(&o2.ctx(), b, &mut resp);
                            self.n_calls += 2;
                            if !d.is_panic() && !pr.dec.is_panic() && d != pr.dec {
                                out.push(format!("process_packet reports {:?} but decode_packet reports {:?} for {}", pr.dec, d, hex(b)));
                            }
                        }
                    }
                    subject::suspend_other_ctx_hook(false);
                }
            }
        }
        out
    }
}

/// Child mode: `mcx iso <prop> <lo> <hi>`.
pub fn child(prop: &str, lo: usize, hi: usize, no_a: bool, deep: bool) -> i32 {
    use std::cell::{Cell, RefCell};
    use std::rc::Rc;
    crate::trap::install();
    let evs = Rc::new(AList::new());
    let hi = hi.min(evs.total());
    let nfixed = evs.fixed.len();
    let mut bj = BJudge::new(prop);
    // baseline: the same judgements with no other context doing anything
    let mut baseline = bj.judge(Level::Full, None);
    baseline.extend(bj.judge(Level::Small, None));
    let cfg = stateprops::mixed_machine().cfg;
    let owned: &'static Owned = Box::leak(Box::new(Owned::new(&cfg)));
    let a = Rc::new(RefCell::new(owned.ctx()));
    // a second "other" context with another own address and configuration (a memo keyed on
    // everything but the device's own address only shows between devices that differ in it)
    let cfg2 = Cfg {
        addr: 0x51,
        msg_types: cfg.msg_types.iter().map(|t| t ^ 0x55).collect(),
        vendors: cfg.vendors.iter().map(|v| (1 - v.0, v.1 ^ 0x0F0F, v.2 ^ 0x00FF)).collect(),
    };
    let owned2: &'static Owned = Box::leak(Box::new(Owned::new(&cfg2)));
    let a2 = Rc::new(RefCell::new(owned2.ctx()));
    let cur = Rc::new(Cell::new(lo));
    let applied = Rc::new(Cell::new(0u64));
    {
        let (evs, a, a2, cur, applied) = (evs.clone(), a.clone(), a2.clone(), cur.clone(), applied.clone());
        subject::set_other_ctx_hook(Some(Box::new(move || {
            if no_a {
                return;
            }
            let ev = evs.get(cur.get());
            let _ = subject::apply(&mut a2.borrow_mut(), &ev);
            let _ = subject::apply(&mut a.borrow_mut(), &ev);
            applied.set(applied.get() + 2);
        })));
    }
    let mut visited = 0u64;
    let mut found = false;
    for i in lo..hi {
        cur.set(i);
        let ev = evs.get(i);
        if let (Some((x, _)), false) = (evs.pair(i), no_a) {
            let first = evs.fixed[x].clone();
            let _ = subject::apply(&mut a2.borrow_mut(), &first);
            let _ = subject::apply(&mut a.borrow_mut(), &first);
            applied.set(applied.get() + 2);
        }
        if (prop == "C19" || prop == "C18") && !no_a {
            // no context is involved in a conversion: A simply goes first
            let _ = subject::apply(&mut a2.borrow_mut(), &ev);
            let _ = subject::apply(&mut a.borrow_mut(), &ev);
            applied.set(applied.get() + 2);
        }
        visited += 1;
        let level = if deep || i < nfixed || (i + 1) % 256 == 0 || (i + 1 == hi && evs.pair(i).is_none()) { Level::Full } else { Level::Small };
        let echo = match &ev {
            Event::Process(p) | Event::Decode(p) => Some(p.clone()),
            _ => None,
        };
        let now = bj.judge(level, echo.as_deref());
        let new: Vec<&String> = now.iter().filter(|d| !baseline.contains(d)).collect();
        if !new.is_empty() {
            for d in new.iter().take(8) {
                println!("ISO-DIFF {} {}", i, d.replace('\n', " "));
            }
            found = true;
            break;
        }
    }
    subject::set_other_ctx_hook(None);
    println!("ISO-DONE visited={} judged={} calls={} baseline={}", visited, bj.n_judged, bj.n_calls + applied.get(), baseline.len());
    if found {
        10
    } else {
        0
    }
}

struct ChildOut {
    diffs: Vec<(usize, String)>,
    visited: u64,
    judged: u64,
    calls: u64,
    ok: bool,
    raw: String,
}

fn spawn(prop: &str, lo: usize, hi: usize) -> std::io::Result<std::process::Child> {
    spawn_opt(prop, lo, hi, false)
}

thread_local! {
    /// thorough tier: the full B set after every A-event
    static DEEP: std::cell::Cell<bool> = const { std::cell::Cell::new(false) };
}

fn spawn_opt(prop: &str, lo: usize, hi: usize, no_a: bool) -> std::io::Result<std::process::Child> {
    let deep = DEEP.with(|d| d.get());
    Command::new(std::env::current_exe()?)
        .args(["iso", prop, &lo.to_string(), &hi.to_string(), if no_a { "no-a" } else { "a" }, if deep { "deep" } else { "std" }])
        .stdout(std::process::Stdio::piped())
        .stderr(std::process::Stdio::piped())
        .spawn()
}

fn collect(c: std::process::Child) -> ChildOut {
    let mut o = ChildOut { diffs: vec![], visited: 0, judged: 0, calls: 0, ok: false, raw: String::new() };
    let Ok(out) = c.wait_with_output() else { return o };
    let txt = String::from_utf8_lossy(&out.stdout).to_string();
    for l in txt.lines() {
        if let Some(r) = l.strip_prefix("ISO-DIFF ") {
            let (i, d) = r.split_once(' ').unwrap_or((r, ""));
            o.diffs.push((i.parse().unwrap_or(usize::MAX), d.to_string()));
        } else if let Some(r) = l.strip_prefix("ISO-DONE ") {
            for kv in r.split(' ') {
                if let Some((k, v)) = kv.split_once('=') {
                    let v: u64 = v.parse().unwrap_or(0);
                    match k {
                        "visited" => o.visited = v,
                        "judged" => o.judged = v,
                        "calls" => o.calls = v,
                        _ => {}
                    }
                }
            }
            o.ok = matches!(out.status.code(), Some(0) | Some(10));
        }
    }
    o.raw = format!("{}{}", txt, String::from_utf8_lossy(&out.stderr));
    o
}

fn run_range(prop: &str, lo: usize, hi: usize) -> ChildOut {
    run_range_opt(prop, lo, hi, false)
}

fn run_range_opt(prop: &str, lo: usize, hi: usize, no_a: bool) -> ChildOut {
    match spawn_opt(prop, lo, hi, no_a) {
        Ok(c) => collect(c),
        Err(e) => ChildOut { diffs: vec![], visited: 0, judged: 0, calls: 0, ok: false, raw: e.to_string() },
    }
}

/// Parent: returns true when cross-context interference was found (and
/// recorded as a violation); the caller then skips the other sub-spaces.
pub fn phase(run: &mut Run) -> bool {
    let prop = run.prop.clone();
    if !applies(&prop) || std::env::var("MCX_NO_ISO").is_ok() {
        return false;
    }
    let t0 = std::time::Instant::now();
    DEEP.with(|d| d.set(run.tier.thorough()));
    run.bound("isolation_b_set", if run.tier.thorough() { "full B set after every A-event" } else { "small B set after every A-event, full set after alphabet events, every 256th deviation event and at segment ends" });
    let n = AList::new().total();
    let k = run.threads.max(1).min(n);
    let seg = (n + k - 1) / k;
    let mut children = vec![];
    for s in 0..k {
        let lo = s * seg;
        let hi = ((s + 1) * seg).min(n);
        if lo >= hi {
            break;
        }
        match spawn(&prop, lo, hi) {
            Ok(c) => children.push((lo, hi, c)),
            Err(e) => {
                run.machinery_errors.push(format!("isolation phase: cannot start a child process: {}", e));
                return false;
            }
        }
    }
    let nchildren = children.len();
    let mut visited = 0u64;
    let mut judged = 0u64;
    let mut calls = 0u64;
    let mut first: Option<(usize, usize, String)> = None; // (segment lo, event index, text)
    for (lo, _hi, c) in children {
        let o = collect(c);
        if !o.ok {
            run.machinery_errors.push(format!("isolation phase: child for events {}.. failed: {}", lo, o.raw.lines().rev().take(3).collect::<Vec<_>>().join(" | ")));
            continue;
        }
        run.acc.state(Fnv::default().u64(0x150).u64(lo as u64).u64(o.visited).finish());
        visited += o.visited;
        judged += o.judged;
        calls += o.calls;
        if let Some((i, d)) = o.diffs.first() {
            if first.as_ref().map(|f| *i < f.1).unwrap_or(true) {
                first = Some((lo, *i, d.clone()));
            }
        }
    }
    let name = format!(
        "ISOLATION: {} A-events (all alphabets, every basic encoder call, the t=1 core deviation space, every ordered pair of alphabet events) on one context, each followed by B-cases on fresh contexts in a fresh single-threaded process ({} segments)",
        n, nchildren
    );
    run.acc.evals += visited;
    run.acc.trans += calls;
    run.acc.validated += judged;
    run.extra.insert("isolation_phase".into(), json!({"a_events": n, "segments": nchildren, "b_judgements": judged, "calls": calls, "differences": first.is_some() as u64, "wall_s": (t0.elapsed().as_secs_f64() * 100.0).round() / 100.0}));
    let Some((seg_lo, i, text)) = first else {
        run.subspaces.push(crate::engine::SubSpace { name, cardinality: n as u64, visited });
        run.acc.outcome("isolation.no-interference");
        return false;
    };
    // Is it interference at all?  The damaged-echo B-cases are derived from the A-event's packet; if
    // the same judgement differs in a fresh process in which context A does *nothing*, the library
    // simply mishandles that derived input: a plain violation, and the other sub-spaces still run.
    let alone = run_range_opt(&prop, i, i + 1, true);
    if alone.ok && !alone.diffs.is_empty() {
        let evs = AList::new();
        let ev_i = evs.get(i);
        run.subspaces.push(crate::engine::SubSpace { name, cardinality: n as u64, visited });
        let detail = format!("an input derived from {} (one byte damaged, PEC left as it was) on a fresh context, no other context involved: {}", short_event(&ev_i), alone.diffs[0].1);
        run.acc.violation(1, "derived-input", detail, || json!({"prop": prop, "check": "iso", "lo": i, "hi": i + 1, "no_a": true, "event": ev_i, "deep": DEEP.with(|d| d.get())}));
        return false;
    }
    // minimise: does the single A-event reproduce it in a fresh process?  else the segment prefix
    let single = run_range(&prop, i, i + 1);
    let (lo, hi) = if !single.diffs.is_empty() { (i, i + 1) } else { (seg_lo, i + 1) };
    let evs = AList::new();
    let ev_i = evs.get(i);
    let detail = format!(
        "state leaks between contexts: after context A handled {} (A-events {}..{}), a fresh context B no longer behaves as the reference: {}",
        if hi - lo == 1 { short_event(&ev_i) } else { format!("{} events ending with {}", hi - lo, short_event(&ev_i)) },
        lo,
        hi,
        text
    );
    run.subspaces.push(crate::engine::SubSpace { name, cardinality: n as u64, visited: n as u64 });
    run.caps.push("the isolation phase found cross-context interference; the multi-threaded sub-spaces were not run (their outcomes would not be functions of their cases)".into());
    run.acc.violation(0, "isolation", detail, || json!({"prop": prop, "check": "iso", "lo": lo, "hi": hi, "event": ev_i, "deep": DEEP.with(|d| d.get())}));
    true
}

fn short_event(e: &Event) -> String {
    let s = format!("{:?}", e);
    if s.len() > 160 {
        format!("{}...", &s[..160])
    } else {
        s
    }
}

pub fn replay(case: &Value) -> Result<ReplayOut, String> {
    let prop = case["prop"].as_str().ok_or("iso case lacks prop")?;
    DEEP.with(|d| d.set(case["deep"].as_bool().unwrap_or(false)));
    let lo = case["lo"].as_u64().ok_or("iso case lacks lo")? as usize;
    let hi = case["hi"].as_u64().ok_or("iso case lacks hi")? as usize;
    let o = run_range_opt(prop, lo, hi, case["no_a"].as_bool().unwrap_or(false));
    if !o.ok {
        return Err(format!("isolation replay child failed: {}", o.raw));
    }
    let violations: Vec<String> = o.diffs.iter().map(|(i, d)| format!("after A-event {}: {}", i, d)).collect();
    Ok(ReplayOut { observed: violations.join("\n"), violations })
}
