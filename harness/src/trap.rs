//! Panic trap: every call into the subject goes through `trap`, which turns an
//! unwinding panic into an ordinary outcome (message + location).
use std::cell::RefCell;
use std::panic::{self, AssertUnwindSafe};
use std::sync::Once;

thread_local! {
    static LAST: RefCell<Option<String>> = const { RefCell::new(None) };
}

static INSTALL: Once = Once::new();

/// Install the quiet hook (idempotent). Panics raised outside `trap` (i.e.
/// harness bugs) are still printed.
pub fn install() {
    INSTALL.call_once(|| {
        let default = panic::take_hook();
        panic::set_hook(Box::new(move |info| {
            let inside = IN_TRAP.with(|c| *c.borrow());
            if inside {
                let msg = if let Some(s) = info.payload().downcast_ref::<&str>() {
                    (*s).to_string()
                } else if let Some(s) = info.payload().downcast_ref::<String>() {
                    s.clone()
                } else {
                    "<non-string panic>".to_string()
                };
                let loc = info
                    .location()
                    .map(|l| {
                        let f = l.file();
                        let f = f.rsplit("src/").next().unwrap_or(f);
                        format!("{}:{}", f, l.line())
                    })
                    .unwrap_or_default();
                LAST.with(|c| *c.borrow_mut() = Some(format!("{} @ {}", msg, loc)));
            } else {
                default(info);
            }
        }));
    });
}

thread_local! {
    static IN_TRAP: RefCell<bool> = const { RefCell::new(false) };
}

/// Run `f`; `Err(message)` if it unwound.
#[inline]
pub fn trap<R>(f: impl FnOnce() -> R) -> Result<R, String> {
    IN_TRAP.with(|c| *c.borrow_mut() = true);
    let r = panic::catch_unwind(AssertUnwindSafe(f));
    IN_TRAP.with(|c| *c.borrow_mut() = false);
    match r {
        Ok(v) => Ok(v),
        Err(_) => Err(LAST
            .with(|c| c.borrow_mut().take())
            .unwrap_or_else(|| "<panic>".to_string())),
    }
}
