//! Neutral data types shared by the reference model and the subject adapter.
//! Nothing here depends on libmctp.
use serde::{Deserialize, Serialize};

/// A context configuration.
#[derive(Clone, Debug, PartialEq, Eq, Hash, Serialize, Deserialize)]
pub struct Cfg {
    pub addr: u8,
    pub msg_types: Vec<u8>,
    /// (format, data, numeric_value)
    pub vendors: Vec<(u8, u32, u16)>,
}

impl Cfg {
    pub fn simple(addr: u8) -> Cfg {
        Cfg { addr, msg_types: vec![0x7E], vendors: vec![(0, 0x1414, 4)] }
    }
    /// 16 mixed vendor sets, 30 message types.
    pub fn dirty(addr: u8) -> Cfg {
        Cfg {
            addr,
            msg_types: (0..30).map(|i| (i as u8).wrapping_mul(37).wrapping_add(11)).collect(),
            vendors: (0..16u32)
                .map(|i| {
                    if i % 2 == 0 {
                        (0u8, 0x1000 + i, 0x0100 + i as u16)
                    } else {
                        (1u8, 0xA0B0_C000 + i, 0x0100 + i as u16)
                    }
                })
                .collect(),
        }
    }
    pub fn bare(addr: u8) -> Cfg {
        Cfg { addr, msg_types: vec![], vendors: vec![(0, 0x8086, 0xBEEF)] }
    }
}

/// One operation on a context (the alphabet of the explorer).
#[derive(Clone, Debug, PartialEq, Eq, Hash, Serialize, Deserialize)]
pub enum Event {
    /// `process_packet(bytes, resp)` with a poisoned response buffer
    Process(#[serde(with = "hexv")] Vec<u8>),
    /// `decode_packet(bytes)`
    Decode(#[serde(with = "hexv")] Vec<u8>),
    /// `set_uuid(&uuid)`
    SetUuid([u8; 16]),
    /// `get_request().set_eid(v)`
    SetEidReq(u8),
    /// `get_response().set_eid(v)`
    SetEidResp(u8),
    /// `get_length(bytes)`
    GetLength(#[serde(with = "hexv")] Vec<u8>),
    /// an encoder call whose output is discarded (contexts that have already
    /// been used to encode something)
    Encode { call: EncCall, dst: u8 },
}

/// Which half of the context an encoder is called on.
#[derive(Clone, Copy, Debug, PartialEq, Eq, Hash, Serialize, Deserialize)]
pub enum Half {
    Req,
    Resp,
}

/// The generic packet writers of the `SMBusMCTPRequestResponse` trait.
#[derive(Clone, Copy, Debug, PartialEq, Eq, Hash, Serialize, Deserialize)]
pub enum Writer {
    Control,
    Pci,
    Iana,
    /// `generate_spdm_msg_packet_bytes` with MessageType SPDM
    Spdm,
    /// `generate_spdm_msg_packet_bytes` with MessageType SecuredMessages
    Secured,
}

/// One encoder call, fully described (so it can be replayed from JSON).
#[derive(Clone, Debug, PartialEq, Eq, Hash, Serialize, Deserialize)]
pub enum EncCall {
    ReqSetEid { op: u8, eid: u8 },
    ReqGetEid,
    ReqGetUuid,
    /// q = index into [0xFF, 0, 1, 2, 3]
    ReqGetVersion { q: u8 },
    ReqGetMsgTypes,
    ReqGetVendor { sel: u8 },
    ReqResolveEid { eid: u8 },
    ReqAllocate { op: u8, size: u8, first: u8 },
    /// entries as raw 4-byte buffers; `via_new` builds them with
    /// `SMBusRoutingInformationUpdateEntry::new(type=b0&3, b1, b2, b3)`
    ReqRouting { entries: Vec<[u8; 4]>, via_new: bool },
    ReqGetRoutingTable { h: u8 },
    ReqPrepare,
    ReqDiscovery,
    ReqNotify,
    ReqNetworkId,
    /// ty = index into [0x00, 0x05, 0x06, 0x7E, 0x7F, 0xFF]
    ReqQueryHop { eid: u8, ty: u8 },
    ReqResolveUuid { uuid: [u8; 16], h: u8 },
    ReqQueryRate,
    RespSetEid { cc: u8, assign: u8, alloc: u8 },
    RespGetEid { cc: u8, ty: u8, idty: u8, fair: bool },
    RespUuid { cc: u8, uuid: [u8; 16] },
    RespVersion { cc: u8 },
    RespMsgTypes { cc: u8, #[serde(with = "hexv")] types: Vec<u8> },
    RespVendor { cc: u8, sel: u8, #[serde(with = "hexv")] field: Vec<u8> },
    Vendor { fmt: u8, data: u32, num: u16, #[serde(with = "hexv")] msg: Vec<u8> },
    Raw {
        half: Half,
        writer: Writer,
        hdr: Option<Vec<u8>>,
        #[serde(with = "hexv")]
        data: Vec<u8>,
    },
}

pub const VERSION_QUERIES: [u8; 5] = [0xFF, 0x00, 0x01, 0x02, 0x03];
pub const MSG_TYPES: [u8; 6] = [0x00, 0x05, 0x06, 0x7E, 0x7F, 0xFF];

impl EncCall {
    pub fn is_request(&self) -> bool {
        use EncCall::*;
        matches!(
            self,
            ReqSetEid { .. }
                | ReqGetEid
                | ReqGetUuid
                | ReqGetVersion { .. }
                | ReqGetMsgTypes
                | ReqGetVendor { .. }
                | ReqResolveEid { .. }
                | ReqAllocate { .. }
                | ReqRouting { .. }
                | ReqGetRoutingTable { .. }
                | ReqPrepare
                | ReqDiscovery
                | ReqNotify
                | ReqNetworkId
                | ReqQueryHop { .. }
                | ReqResolveUuid { .. }
                | ReqQueryRate
        )
    }
    pub fn is_response(&self) -> bool {
        use EncCall::*;
        matches!(
            self,
            RespSetEid { .. }
                | RespGetEid { .. }
                | RespUuid { .. }
                | RespVersion { .. }
                | RespMsgTypes { .. }
                | RespVendor { .. }
        )
    }
    /// Short stable name of the encoder (histogram key).
    pub fn name(&self) -> &'static str {
        use EncCall::*;
        match self {
            ReqSetEid { .. } => "req.set_endpoint_id",
            ReqGetEid => "req.get_endpoint_id",
            ReqGetUuid => "req.get_endpoint_uuid",
            ReqGetVersion { .. } => "req.get_mctp_version_support",
            ReqGetMsgTypes => "req.get_message_type_suport",
            ReqGetVendor { .. } => "req.get_vendor_defined_message_support",
            ReqResolveEid { .. } => "req.resolve_endpoint_id",
            ReqAllocate { .. } => "req.allocate_endpoint_ids",
            ReqRouting { .. } => "req.routing_information_update",
            ReqGetRoutingTable { .. } => "req.get_routing_table_entries",
            ReqPrepare => "req.prepare_for_endpoint_discovery",
            ReqDiscovery => "req.endpoint_discovery",
            ReqNotify => "req.discovery_notify",
            ReqNetworkId => "req.get_network_id",
            ReqQueryHop { .. } => "req.query_hop",
            ReqResolveUuid { .. } => "req.resolve_uuid",
            ReqQueryRate => "req.query_rate_limit",
            RespSetEid { .. } => "resp.set_endpoint_id",
            RespGetEid { .. } => "resp.get_endpoint_id",
            RespUuid { .. } => "resp.get_endpoint_uuid",
            RespVersion { .. } => "resp.get_mctp_version_support",
            RespMsgTypes { .. } => "resp.get_message_type_suport",
            RespVendor { .. } => "resp.get_vendor_defined_message_support",
            Vendor { fmt: 0, .. } => "req.vendor_defined(pci)",
            Vendor { fmt: 1, .. } => "req.vendor_defined(iana)",
            Vendor { .. } => "req.vendor_defined(other)",
            Raw { writer: Writer::Control, .. } => "raw.control",
            Raw { writer: Writer::Pci, .. } => "raw.pci",
            Raw { writer: Writer::Iana, .. } => "raw.iana",
            Raw { writer: Writer::Spdm, .. } => "raw.spdm",
            Raw { writer: Writer::Secured, .. } => "raw.secured",
        }
    }
}

pub fn hex(b: &[u8]) -> String {
    const D: &[u8; 16] = b"0123456789abcdef";
    let mut s = String::with_capacity(b.len() * 2);
    for x in b {
        s.push(D[(x >> 4) as usize] as char);
        s.push(D[(x & 15) as usize] as char);
    }
    s
}

pub fn unhex(s: &str) -> Result<Vec<u8>, String> {
    let s = s.trim();
    if s.len() % 2 != 0 {
        return Err("odd hex length".into());
    }
    (0..s.len() / 2)
        .map(|i| u8::from_str_radix(&s[2 * i..2 * i + 2], 16).map_err(|e| e.to_string()))
        .collect()
}

/// serde adapter: Vec<u8> as a hex string.
pub mod hexv {
    use serde::{Deserialize, Deserializer, Serializer};
    pub fn serialize<S: Serializer>(v: &Vec<u8>, s: S) -> Result<S::Ok, S::Error> {
        s.serialize_str(&super::hex(v))
    }
    pub fn deserialize<'de, D: Deserializer<'de>>(d: D) -> Result<Vec<u8>, D::Error> {
        let s = String::deserialize(d)?;
        super::unhex(&s).map_err(serde::de::Error::custom)
    }
}

/// FNV-1a 64-bit fingerprint (deterministic across runs, unlike RandomState).
#[derive(Clone, Copy)]
pub struct Fnv(pub u64);
impl Default for Fnv {
    fn default() -> Self {
        Fnv(0xcbf29ce484222325)
    }
}
impl Fnv {
    #[inline]
    pub fn bytes(mut self, b: &[u8]) -> Self {
        for x in b {
            self.0 ^= *x as u64;
            self.0 = self.0.wrapping_mul(0x100000001b3);
        }
        self
    }
    #[inline]
    pub fn u64(self, v: u64) -> Self {
        self.bytes(&v.to_le_bytes())
    }
    #[inline]
    pub fn finish(self) -> u64 {
        // final avalanche
        let mut x = self.0;
        x ^= x >> 33;
        x = x.wrapping_mul(0xff51afd7ed558ccd);
        x ^= x >> 33;
        x
    }
}

impl std::hash::Hasher for Fnv {
    fn write(&mut self, bytes: &[u8]) {
        *self = self.bytes(bytes);
    }
    fn finish(&self) -> u64 {
        Fnv::finish(*self)
    }
}

pub fn fp<T: std::hash::Hash>(v: &T) -> u64 {
    use std::hash::Hasher;
    let mut h = Fnv::default();
    v.hash(&mut h);
    Hasher::finish(&h)
}
