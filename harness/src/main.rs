//! mcx — bounded exhaustive model checking of libmctp (see /verif/DESIGN.md).
#![allow(dead_code)]
mod engine;
mod explore;
mod iso;
mod props;
mod refmodel;
mod subject;
mod trap;
mod types;

use engine::{Run, Tier};

fn usage() -> ! {
    eprintln!("usage: mcx check <C01..C19> [--tier quick|thorough]\n       mcx replay <file>\n       mcx list");
    std::process::exit(2);
}

fn main() {
    trap::install();
    let args: Vec<String> = std::env::args().collect();
    if args.len() < 2 {
        usage();
    }
    match args[1].as_str() {
        "list" => {
            for p in props::ALL {
                println!("{}", p.0);
            }
        }
        "check" => {
            if args.len() < 3 {
                usage();
            }
            let id = args[2].to_uppercase();
            let mut tier = Tier::Quick;
            let mut i = 3;
            while i < args.len() {
                if args[i] == "--tier" && i + 1 < args.len() {
                    tier = match args[i + 1].as_str() {
                        "quick" => Tier::Quick,
                        "thorough" => Tier::Thorough,
                        _ => usage(),
                    };
                    i += 1;
                }
                i += 1;
            }
            if let Ok(t) = std::env::var("VERIF_TIER") {
                match t.as_str() {
                    "quick" => tier = Tier::Quick,
                    "thorough" => tier = Tier::Thorough,
                    _ => {}
                }
            }
            let seed = std::env::var("VERIF_SEED").ok().and_then(|s| s.parse::<u64>().ok()).unwrap_or(0);
            let Some(p) = props::ALL.iter().find(|p| p.0 == id) else {
                eprintln!("MACHINERY: unknown property {}", id);
                std::process::exit(2);
            };
            let exec = |threads: Option<usize>| -> Run {
                let mut run = Run::new(&id, tier, seed);
                if let Some(t) = threads {
                    run.threads = t;
                }
                // a panic in the harness itself is a machinery failure, never a verdict
                let r = std::panic::catch_unwind(std::panic::AssertUnwindSafe(|| {
                    // process-wide state first, in fresh single-threaded children; if state leaks
                    // between contexts the multi-threaded sub-spaces would not be functions of their cases
                    if !iso::phase(&mut run) {
                        (p.1)(&mut run);
                    }
                }));
                if r.is_err() {
                    eprintln!("MACHINERY: the harness panicked while checking {}", id);
                    std::process::exit(2);
                }
                run
            };
            let mut run = exec(None);
            if run.threads > 1 && !engine::some_violation_replays(&mut run, p.2) {
                // differing cases none of which replays: the outcome depended on something outside the
                // case (process-wide state raced by the worker threads).  Decide on one thread.
                eprintln!(
                    "note: {} differing case(s) under {} threads, none replays identically; re-running {} on a single thread",
                    run.acc.viol_count, run.threads, id
                );
                run = exec(Some(1));
                run.assume("the multi-threaded run produced differing cases that did not replay; this evidence is from the single-threaded re-run");
            }
            let code = engine::finish(run, p.2);
            std::process::exit(code);
        }
        "iso" => {
            if args.len() < 5 {
                usage();
            }
            let lo: usize = args[3].parse().unwrap_or(0);
            let hi: usize = args[4].parse().unwrap_or(0);
            let no_a = args.get(5).map(|s| s == "no-a").unwrap_or(false);
            let deep = args.get(6).map(|s| s == "deep").unwrap_or(false);
            std::process::exit(iso::child(&args[2].to_uppercase(), lo, hi, no_a, deep));
        }
        "replay" => {
            if args.len() < 3 {
                usage();
            }
            let txt = std::fs::read_to_string(&args[2]).unwrap_or_else(|e| {
                eprintln!("MACHINERY: {}: {}", args[2], e);
                std::process::exit(2);
            });
            std::process::exit(replay_text(&txt));
        }
        _ => usage(),
    }
}

pub fn replay_text(txt: &str) -> i32 {
    let doc: serde_json::Value = match serde_json::from_str(txt) {
        Ok(v) => v,
        Err(e) => {
            eprintln!("MACHINERY: bad replay file: {}", e);
            return 2;
        }
    };
    let case = if doc.get("case").is_some() { &doc["case"] } else { &doc };
    let prop = case["prop"].as_str().unwrap_or("").to_string();
    let Some(p) = props::ALL.iter().find(|p| p.0 == prop) else {
        eprintln!("MACHINERY: replay file names unknown property {:?}", prop);
        return 2;
    };
    let replayer: engine::Replayer = if case["check"].as_str() == Some("iso") { iso::replay } else { p.2 };
    match replayer(case) {
        Ok(out) => {
            println!("observed: {}", out.observed);
            if out.violations.is_empty() {
                println!("replay: property {} holds on this case", prop);
                0
            } else {
                for v in &out.violations {
                    println!("replay: VIOLATED {}", v);
                }
                1
            }
        }
        Err(e) => {
            eprintln!("MACHINERY: {}", e);
            2
        }
    }
}

#[cfg(test)]
mod tests {
    /// A counter-example is a unit test: MCX_REPLAY=<file> cargo test replay_file
    #[test]
    fn replay_file() {
        crate::trap::install();
        if let Ok(f) = std::env::var("MCX_REPLAY") {
            let txt = std::fs::read_to_string(&f).expect("replay file");
            assert_eq!(super::replay_text(&txt), 0, "the replayed case violates its property");
        }
    }
}
