//! The reference model: an independent re-statement of DSP0236/DSP0237 framing
//! and of the properties in /verif/properties.jsonl.  It shares no code with
//! libmctp (in particular the CRC is the bitwise definition, not a table).
use crate::types::*;

pub const T_CONTROL: u8 = 0x00;
pub const T_SPDM: u8 = 0x05;
pub const T_SECURED: u8 = 0x06;
pub const T_PCI: u8 = 0x7E;
pub const T_IANA: u8 = 0x7F;
pub const T_INVALID: u8 = 0xFF;

pub const SMBUS_CMD: u8 = 0x0F;
/// Largest packet: byte count 255 + dest, cmd, count, PEC.
pub const MAX_PACKET: usize = 259;

/// CRC-8, polynomial x^8+x^2+x+1 (0x07), init 0, no reflection, no final XOR:
/// the bitwise definition for one byte ...
const fn crc8_step(mut crc: u8) -> u8 {
    let mut k = 0;
    while k < 8 {
        crc = if crc & 0x80 != 0 { (crc << 1) ^ 0x07 } else { crc << 1 };
        k += 1;
    }
    crc
}

/// ... tabulated from that definition at compile time (no code shared with the
/// smbus-pec crate the library uses).
const CRC_TABLE: [u8; 256] = {
    let mut t = [0u8; 256];
    let mut i = 0;
    while i < 256 {
        t[i] = crc8_step(i as u8);
        i += 1;
    }
    t
};

#[inline]
pub fn crc8(bytes: &[u8]) -> u8 {
    let mut crc = 0u8;
    for &b in bytes {
        crc = CRC_TABLE[(crc ^ b) as usize];
    }
    crc
}

/// The bit-by-bit definition, kept to cross-check the table (unit test).
pub fn crc8_bitwise(bytes: &[u8]) -> u8 {
    let mut crc = 0u8;
    for &b in bytes {
        crc = crc8_step(crc ^ b);
    }
    crc
}

pub fn supported_type(t: u8) -> bool {
    matches!(t, T_CONTROL | T_SPDM | T_SECURED | T_PCI | T_IANA)
}

/// Frame a message body (everything after the message-type byte).  `None` if
/// the packet cannot be described by the one-byte SMBus byte count.
pub fn frame(src: u8, dst: u8, msg_type: u8, body: &[u8]) -> Option<Vec<u8>> {
    let total = 9 + body.len() + 1;
    if total > MAX_PACKET {
        return None;
    }
    let mut out = Vec::with_capacity(total);
    out.push((dst & 0x7F) << 1);
    out.push(SMBUS_CMD);
    out.push((total - 4) as u8);
    out.push(((src & 0x7F) << 1) | 1);
    out.push(0x01);
    out.push(dst);
    out.push(src);
    out.push(0xC8); // SOM, EOM, seq 0, TO, tag 0
    out.push(msg_type & 0x7F);
    out.extend_from_slice(body);
    let p = crc8(&out);
    out.push(p);
    Some(out)
}

/// Re-compute the PEC of a packet in place (no-op on empty input).
pub fn fix_pec(p: &mut [u8]) {
    let n = p.len();
    if n >= 1 {
        p[n - 1] = crc8(&p[..n - 1]);
    }
}

/// Forge a control request as another implementation would send it.
pub fn forge_request(src: u8, dst: u8, iid: u8, d: bool, cmd: u8, data: &[u8]) -> Vec<u8> {
    let mut body = vec![0x80 | ((d as u8) << 6) | (iid & 0x1F), cmd];
    body.extend_from_slice(data);
    frame(src, dst, T_CONTROL, &body).expect("forged request too long")
}

/// Forge a control response.
pub fn forge_response(src: u8, dst: u8, iid: u8, cmd: u8, cc: u8, data: &[u8]) -> Vec<u8> {
    let mut body = vec![iid & 0x1F, cmd, cc];
    body.extend_from_slice(data);
    frame(src, dst, T_CONTROL, &body).expect("forged response too long")
}

// ---------------------------------------------------------------------------
// Encoders (C03-C08, C16)
// ---------------------------------------------------------------------------

/// What the reference expects of an encoder call.
#[derive(Clone, Debug, PartialEq, Eq)]
pub enum EncExp {
    /// the exact packet; for responses byte 7's low nibble (TO/tag) is not
    /// claimed by any property and is compared under mask 0xF0
    Bytes(Vec<u8>),
    /// documented-invalid arguments or a message that does not fit the frame:
    /// `Err(())`, buffer untouched
    Refuse,
}

/// Message type byte and body (after the type byte) of an encoder call, or
/// None when the call must be refused for its arguments.
pub fn enc_body(call: &EncCall, eid_resp: u8) -> Option<(u8, Vec<u8>)> {
    use EncCall::*;
    let rq = 0x80u8;
    Some(match call {
        ReqSetEid { op, eid } => {
            if *eid == 0x00 || *eid == 0xFF {
                return None;
            }
            (T_CONTROL, vec![rq, 0x01, *op, *eid])
        }
        ReqGetEid => (T_CONTROL, vec![rq, 0x02]),
        ReqGetUuid => (T_CONTROL, vec![rq, 0x03]),
        ReqGetVersion { q } => (T_CONTROL, vec![rq, 0x04, VERSION_QUERIES[*q as usize]]),
        ReqGetMsgTypes => (T_CONTROL, vec![rq, 0x05]),
        ReqGetVendor { sel } => (T_CONTROL, vec![rq, 0x06, *sel]),
        ReqResolveEid { eid } => (T_CONTROL, vec![rq, 0x07, *eid]),
        ReqAllocate { op, size, first } => (T_CONTROL, vec![rq, 0x08, *op, *size, *first]),
        ReqRouting { entries, via_new } => {
            if entries.len() >= 8 {
                return None;
            }
            let mut b = vec![rq, 0x09, entries.len() as u8];
            for e in entries {
                if *via_new {
                    b.extend_from_slice(&[e[0] & 0x03, e[1], e[2], e[3]]);
                } else {
                    b.extend_from_slice(e);
                }
            }
            (T_CONTROL, b)
        }
        ReqGetRoutingTable { h } => (T_CONTROL, vec![rq, 0x0A, *h]),
        ReqPrepare => (T_CONTROL, vec![rq, 0x0B]),
        ReqDiscovery => (T_CONTROL, vec![rq, 0x0C]),
        ReqNotify => (T_CONTROL, vec![rq, 0x0D]),
        ReqNetworkId => (T_CONTROL, vec![rq, 0x0E]),
        ReqQueryHop { eid, ty } => (T_CONTROL, vec![rq, 0x0F, *eid, MSG_TYPES[*ty as usize]]),
        ReqResolveUuid { uuid, h } => {
            let mut b = vec![rq, 0x10];
            b.extend_from_slice(uuid);
            b.push(*h);
            (T_CONTROL, b)
        }
        ReqQueryRate => (T_CONTROL, vec![rq, 0x11]),
        RespSetEid { cc, assign, alloc } => {
            (T_CONTROL, vec![0x00, 0x01, *cc, (*assign << 4) | *alloc, eid_resp, 0x00])
        }
        RespGetEid { cc, ty, idty, fair } => {
            (T_CONTROL, vec![0x00, 0x02, *cc, eid_resp, (*ty << 4) | *idty, *fair as u8])
        }
        RespUuid { cc, uuid } => {
            let mut b = vec![0x00, 0x03, *cc];
            b.extend_from_slice(uuid);
            (T_CONTROL, b)
        }
        RespVersion { cc } => (T_CONTROL, vec![0x00, 0x04, *cc, 0x01, 0xF1, 0xF3, 0xF1, 0x00]),
        RespMsgTypes { cc, types } => {
            if types.len() > 30 {
                return None;
            }
            let mut b = vec![0x00, 0x05, *cc, types.len() as u8];
            b.extend_from_slice(types);
            (T_CONTROL, b)
        }
        RespVendor { cc, sel, field } => {
            // documented shape: at most 7 bytes; longer is outside every claim
            let mut b = vec![0x00, 0x06, *cc, *sel];
            b.extend_from_slice(field);
            (T_CONTROL, b)
        }
        Vendor { fmt, data, num: _, msg } => match fmt {
            0 => {
                let mut b = vec![(*data >> 8) as u8, *data as u8];
                b.extend_from_slice(msg);
                (T_PCI, b)
            }
            1 => {
                let mut b = data.to_be_bytes().to_vec();
                b.extend_from_slice(msg);
                (T_IANA, b)
            }
            _ => return None,
        },
        Raw { half: _, writer, hdr, data } => {
            let t = match writer {
                Writer::Control => T_CONTROL,
                Writer::Pci => T_PCI,
                Writer::Iana => T_IANA,
                Writer::Spdm => T_SPDM,
                Writer::Secured => T_SECURED,
            };
            let mut b = Vec::new();
            if let Some(h) = hdr {
                b.extend_from_slice(h);
            }
            b.extend_from_slice(data);
            (t, b)
        }
    })
}

/// K-C06-QUERYHOP: the library emits command code 0x0E for Query Hop.
pub const QUERY_HOP_LIB_CODE: u8 = 0x0E;

pub fn enc_expect(call: &EncCall, src: u8, dst: u8, eid_resp: u8) -> EncExp {
    match enc_body(call, eid_resp) {
        None => EncExp::Refuse,
        Some((t, body)) => match frame(src, dst, t, &body) {
            Some(p) => EncExp::Bytes(p),
            None => EncExp::Refuse,
        },
    }
}

/// Compare an encoded packet with the reference under the claimed mask.
/// Returns the first differing index.
pub fn enc_diff(call: &EncCall, exp: &[u8], got: &[u8]) -> Option<usize> {
    if exp.len() != got.len() {
        return Some(exp.len().min(got.len()));
    }
    for i in 0..exp.len() {
        let m = if i == 7 && call.is_response() { 0xF0 } else { 0xFF };
        if (exp[i] ^ got[i]) & m != 0 {
            return Some(i);
        }
    }
    None
}

// ---------------------------------------------------------------------------
// Decoder (C01, C02, C09, C10, C11)
// ---------------------------------------------------------------------------

/// Error values the library can return, flattened.
#[derive(Clone, Copy, Debug, PartialEq, Eq, Hash)]
pub enum EK {
    /// DecodeError::Unknown
    Unknown,
    CmUnknown,
    CmInvLen,
    CmInvHdr,
    CmUnsucc(u8),
    CmInvPec,
}

#[derive(Clone, Copy, Debug, PartialEq, Eq, Hash)]
pub enum Class {
    /// must be accepted with payload [off, end)
    Accept,
    /// must be rejected with an admissible error
    Reject,
    /// too short to hold its headers: any rejection, never Ok
    TooShort,
    /// Success responses to Get EID / Allocate EIDs / Routing Information
    /// Update: outside C09's claim.  An accept must still return the exact
    /// payload and needs a right PEC; a reject must be truthful.
    Unclaimed,
    /// input lies in a class on which decode is known to panic
    KnownPanic(&'static str),
}

#[derive(Clone, Debug, PartialEq, Eq)]
pub struct RefDec {
    pub class: Class,
    pub pec_ok: bool,
    /// header (version, reserved bits, IC, type) is supported
    pub hdr_ok: bool,
    /// message type of the packet when hdr_ok
    pub ty: u8,
    pub is_control: bool,
    pub is_request: bool,
    /// payload range when accepted
    pub off: usize,
    pub end: usize,
    /// the data-length rule holds (or none applies)
    pub len_ok: bool,
    /// completion code of a response (0 otherwise)
    pub cc: u8,
    pub cmd: u8,
}

pub fn req_fixed_len(cmd: u8) -> Option<usize> {
    match cmd {
        0x01 => Some(2),
        0x04 => Some(1),
        0x06 => Some(1),
        0x07 => Some(1),
        0x08 => Some(3),
        _ => None,
    }
}

pub fn resp_fixed_len(cmd: u8) -> Option<usize> {
    match cmd {
        0x01 => Some(3),
        0x03 => Some(16),
        0x04 => Some(5),
        _ => None,
    }
}

pub fn req_unimpl(cmd: u8) -> bool {
    cmd >= 0x09
}
pub fn resp_unimpl(cmd: u8) -> bool {
    cmd == 0x07 || cmd >= 0x0A
}
pub fn resp_unclaimed(cmd: u8) -> bool {
    matches!(cmd, 0x02 | 0x08 | 0x09)
}

pub const K_REQ_UNIMPL: &str = "K-C10-REQ-UNIMPL";
pub const K_RESP_UNIMPL: &str = "K-C10-RESP-UNIMPL";
pub const K_CC_RANGE: &str = "K-C10-CC-RANGE";
pub const K_PROC_RESERVED: &str = "K-C10-PROC-RESERVED";
pub const K_PROC_SETEID_OP: &str = "K-C10-PROC-SETEID-OP";
pub const K_PROC_VDM_SEL: &str = "K-C10-PROC-VDM-SEL";
pub const K_PROC_UNIMPL: &str = "K-C10-PROC-UNIMPL";

pub fn ref_decode(p: &[u8]) -> RefDec {
    let n = p.len();
    let mut r = RefDec {
        class: Class::TooShort,
        pec_ok: n >= 1 && crc8(&p[..n - 1]) == p[n - 1],
        hdr_ok: false,
        ty: T_INVALID,
        is_control: false,
        is_request: false,
        off: 0,
        end: 0,
        len_ok: true,
        cc: 0,
        cmd: 0,
    };
    if n < 10 {
        // below 9 the type is unknown; with 9 bytes there is no room for a PEC
        return r;
    }
    let ver_ok = p[4] == 0x01;
    let ic_clear = p[8] & 0x80 == 0;
    let t = p[8] & 0x7F;
    r.hdr_ok = ver_ok && ic_clear && supported_type(t);
    if !r.hdr_ok {
        r.class = Class::Reject;
        return r;
    }
    r.ty = t;
    r.end = n - 1;
    if t != T_CONTROL {
        r.off = 9;
        r.class = if r.pec_ok { Class::Accept } else { Class::Reject };
        return r;
    }
    r.is_control = true;
    if n < 12 {
        return r; // TooShort
    }
    r.is_request = p[9] & 0x80 != 0;
    r.cmd = p[10];
    if r.is_request {
        r.off = 11;
        if req_unimpl(r.cmd) {
            r.class = Class::KnownPanic(K_REQ_UNIMPL);
            return r;
        }
        let dl = n - 1 - 11;
        r.len_ok = req_fixed_len(r.cmd).map_or(true, |l| l == dl);
        r.class = if r.pec_ok && r.len_ok { Class::Accept } else { Class::Reject };
        return r;
    }
    if n < 13 {
        return r; // TooShort: no completion code
    }
    r.cc = p[11];
    r.off = 12;
    if r.cc >= 6 {
        r.class = Class::KnownPanic(K_CC_RANGE);
        return r;
    }
    if r.cc != 0 {
        r.class = Class::Reject;
        return r;
    }
    if resp_unimpl(r.cmd) {
        r.class = Class::KnownPanic(K_RESP_UNIMPL);
        return r;
    }
    let dl = n - 1 - 12;
    if resp_unclaimed(r.cmd) {
        r.class = Class::Unclaimed;
        return r;
    }
    r.len_ok = resp_fixed_len(r.cmd).map_or(true, |l| l == dl);
    r.class = if r.pec_ok && r.len_ok { Class::Accept } else { Class::Reject };
    r
}

impl RefDec {
    /// Is `(ty, err)` a truthful rejection of this input?
    pub fn admissible(&self, ty: u8, err: EK) -> bool {
        if !self.hdr_ok {
            // only "Invalid" is truthful for an unsupported (or absent) header;
            // short inputs may also be turned away by any error
            return ty == T_INVALID
                && match err {
                    EK::Unknown | EK::CmUnknown | EK::CmInvHdr => true,
                    EK::CmInvPec => !self.pec_ok,
                    _ => false,
                };
        }
        if ty != self.ty {
            return false;
        }
        match err {
            EK::CmInvPec => !self.pec_ok,
            EK::CmInvLen => self.is_control && (!self.len_ok || self.class == Class::Unclaimed),
            EK::CmUnsucc(c) => self.is_control && !self.is_request && c == self.cc && c != 0,
            // these are only truthful together with Invalid
            EK::Unknown | EK::CmUnknown | EK::CmInvHdr => false,
        }
    }
}

// ---------------------------------------------------------------------------
// Endpoint state machine (C11-C15)
// ---------------------------------------------------------------------------

#[derive(Clone, Debug, PartialEq, Eq, Hash)]
pub struct RefEndpoint {
    pub cfg: Cfg,
    pub eid_req: u8,
    pub eid_resp: u8,
    pub uuid: [u8; 16],
}

/// Expected response to a processed packet.
#[derive(Clone, Debug, PartialEq, Eq)]
pub enum RespExp {
    /// no response, buffer untouched
    None,
    /// a response; `body_claimed` false means only the framing, header,
    /// command and completion code are specified (non-Success answers)
    Bytes { bytes: Vec<u8>, body_claimed: bool },
    /// `process_packet` is known to panic on this accepted request
    KnownPanic(&'static str),
}

pub const VERSION_ENTRY: [u8; 5] = [0x01, 0xF1, 0xF3, 0xF1, 0x00];

impl RefEndpoint {
    pub fn new(cfg: &Cfg) -> Self {
        RefEndpoint { cfg: cfg.clone(), eid_req: 0, eid_resp: 0, uuid: [0; 16] }
    }

    pub fn vendor_field(&self, i: usize) -> Vec<u8> {
        let (fmt, data, num) = self.cfg.vendors[i];
        let mut f = vec![fmt];
        if fmt == 0 {
            f.extend_from_slice(&[(data >> 8) as u8, data as u8]);
        } else {
            f.extend_from_slice(&data.to_be_bytes());
        }
        f.extend_from_slice(&num.to_be_bytes());
        f
    }

    fn respond(&self, req: &[u8], cc: u8, data: &[u8]) -> Vec<u8> {
        // back to the requester named by the request's source EID; from our own address
        let requester = req[6];
        let mut body = vec![req[9] & 0x1F, req[10], cc];
        body.extend_from_slice(data);
        frame(self.cfg.addr, requester, T_CONTROL, &body).expect("response fits")
    }

    /// Process one packet: returns the decode verdict and the expected response,
    /// and applies the state change.
    pub fn process(&mut self, p: &[u8]) -> (RefDec, RespExp) {
        let d = ref_decode(p);
        if d.class != Class::Accept || !d.is_control || !d.is_request {
            return (d, RespExp::None);
        }
        let data = &p[d.off..d.end];
        let r = match d.cmd {
            0x00 => RespExp::KnownPanic(K_PROC_RESERVED),
            0x01 => match data[0] {
                0 | 1 => {
                    self.eid_req = data[1];
                    self.eid_resp = data[1];
                    RespExp::Bytes {
                        bytes: self.respond(p, 0, &[0x00, self.eid_resp, 0x00]),
                        body_claimed: true,
                    }
                }
                3 => RespExp::Bytes {
                    bytes: self.respond(p, 0x02, &[0x00, self.eid_resp, 0x00]),
                    body_claimed: false,
                },
                _ => RespExp::KnownPanic(K_PROC_SETEID_OP),
            },
            0x02 => RespExp::Bytes {
                bytes: self.respond(p, 0, &[self.eid_resp, 0x00, 0x00]),
                body_claimed: true,
            },
            0x03 => RespExp::Bytes { bytes: self.respond(p, 0, &self.uuid), body_claimed: true },
            0x04 => RespExp::Bytes { bytes: self.respond(p, 0, &VERSION_ENTRY), body_claimed: true },
            0x05 => {
                let mut b = vec![self.cfg.msg_types.len() as u8];
                b.extend_from_slice(&self.cfg.msg_types);
                RespExp::Bytes { bytes: self.respond(p, 0, &b), body_claimed: true }
            }
            0x06 => {
                let sel = data[0] as usize;
                let n = self.cfg.vendors.len();
                if sel >= n {
                    RespExp::KnownPanic(K_PROC_VDM_SEL)
                } else {
                    let next = if sel + 1 == n { 0xFF } else { (sel + 1) as u8 };
                    let mut b = vec![next];
                    b.extend_from_slice(&self.vendor_field(sel));
                    RespExp::Bytes { bytes: self.respond(p, 0, &b), body_claimed: true }
                }
            }
            0x07 | 0x08 => RespExp::KnownPanic(K_PROC_UNIMPL),
            _ => unreachable!("accepted request with unimplemented command"),
        };
        (d, r)
    }

    /// Apply a non-packet event.
    pub fn apply(&mut self, ev: &Event) {
        match ev {
            Event::SetUuid(u) => self.uuid = *u,
            Event::SetEidReq(v) => self.eid_req = *v,
            Event::SetEidResp(v) => self.eid_resp = *v,
            Event::Process(_) | Event::Decode(_) | Event::GetLength(_) | Event::Encode { .. } => {}
        }
    }
}

/// Length probe (C17).
pub fn ref_get_length(p: &[u8]) -> Option<usize> {
    if p.len() >= 3 && p[1] == SMBUS_CMD {
        Some(p[2] as usize + 4)
    } else {
        None
    }
}

// ---------------------------------------------------------------------------
// Header layouts (C18): (name, wire byte, most-significant bit in that byte, width)
// Multi-byte big-endian fields are listed with byte = first byte, msb = 7.
// ---------------------------------------------------------------------------

#[derive(Clone, Copy, Debug)]
pub struct Field {
    pub name: &'static str,
    pub byte: usize,
    pub msb: u32,
    pub width: u32,
}

pub const SMBUS_FIELDS: [Field; 6] = [
    Field { name: "dest_read_write", byte: 0, msb: 0, width: 1 },
    Field { name: "dest_slave_addr", byte: 0, msb: 7, width: 7 },
    Field { name: "command_code", byte: 1, msb: 7, width: 8 },
    Field { name: "byte_count", byte: 2, msb: 7, width: 8 },
    Field { name: "source_read_write", byte: 3, msb: 0, width: 1 },
    Field { name: "source_slave_addr", byte: 3, msb: 7, width: 7 },
];

pub const TRANSPORT_FIELDS: [Field; 8] = [
    Field { name: "hdr_version", byte: 0, msb: 3, width: 4 },
    Field { name: "dest_endpoint_id", byte: 1, msb: 7, width: 8 },
    Field { name: "source_endpoint_id", byte: 2, msb: 7, width: 8 },
    Field { name: "som", byte: 3, msb: 7, width: 1 },
    Field { name: "eom", byte: 3, msb: 6, width: 1 },
    Field { name: "pkt_seq", byte: 3, msb: 5, width: 2 },
    Field { name: "to", byte: 3, msb: 3, width: 1 },
    Field { name: "msg_tag", byte: 3, msb: 2, width: 3 },
];

pub const BODY_FIELDS: [Field; 1] = [Field { name: "msg_type", byte: 0, msb: 6, width: 7 }];

pub const CONTROL_FIELDS: [Field; 4] = [
    Field { name: "rq", byte: 0, msb: 7, width: 1 },
    Field { name: "d", byte: 0, msb: 6, width: 1 },
    Field { name: "instance_id", byte: 0, msb: 4, width: 5 },
    Field { name: "command_code", byte: 1, msb: 7, width: 8 },
];

pub const ROUTING_FIELDS: [Field; 4] = [
    Field { name: "entry_type", byte: 0, msb: 3, width: 4 },
    Field { name: "eid_range_size", byte: 1, msb: 7, width: 8 },
    Field { name: "first_eid", byte: 2, msb: 7, width: 8 },
    Field { name: "physical_address", byte: 3, msb: 7, width: 8 },
];

impl Field {
    /// Extract the field from a raw buffer (fields never cross a byte here).
    #[inline]
    pub fn get(&self, buf: &[u8]) -> u8 {
        let lsb = self.msb + 1 - self.width;
        let mask = ((1u16 << self.width) - 1) as u8;
        (buf[self.byte] >> lsb) & mask
    }
    /// The buffer after storing `v` truncated to the field width.
    #[inline]
    pub fn set(&self, buf: &mut [u8], v: u8) {
        let lsb = self.msb + 1 - self.width;
        let mask = ((1u16 << self.width) - 1) as u8;
        buf[self.byte] = (buf[self.byte] & !(mask << lsb)) | ((v & mask) << lsb);
    }
}

// ---------------------------------------------------------------------------
// Code points (C19), from DSP0236 Table 12 / DSP0239
// ---------------------------------------------------------------------------

/// Command codes 0x00..=0x14 are defined; everything else is Unknown (0xFF).
pub fn ref_command_code(b: u8) -> u8 {
    if b <= 0x14 {
        b
    } else {
        0xFF
    }
}
pub fn ref_message_type(b: u8) -> u8 {
    if supported_type(b) {
        b
    } else {
        0xFF
    }
}

#[cfg(test)]
mod tests {
    use super::*;
    #[test]
    fn crc_known_vectors() {
        // CRC-8 (poly 0x07) check value
        assert_eq!(crc8(b"123456789"), 0xF4);
        assert_eq!(crc8(&[]), 0);
        let v: Vec<u8> = (0..=255u8).chain(0..=255u8).collect();
        for k in 0..v.len() {
            assert_eq!(crc8(&v[..k]), crc8_bitwise(&v[..k]));
        }
    }
}
